#!/bin/bash
# Development helper (not a registered check): run a property's check against a
# scratch copy of the repository (a git worktree with a candidate change) without
# touching /repo or /verif's build output.
#   ./mutcheck.sh <repo-copy-dir> <PROP> [tier]
set -u
WT=$1; PROP=$2; TIER=${3:-quick}
export GOFLAGS=-mod=mod GOPROXY=off GOSUMDB=off GOTOOLCHAIN=local CGO_ENABLED=1
ROOT=$(mktemp -d /tmp/mutroot.XXXXXX)
mkdir -p $ROOT/sim $ROOT/evidence $ROOT/replays
cp /verif/sim/*.go $ROOT/sim/
cp /verif/known_findings.json $ROOT/ 2>/dev/null
{
  sed -e 's#^module .*#module verif/sim#' "$WT/go.mod"
  echo
  echo "require github.com/jackalLabs/canine-chain/v4 v4.0.0"
  echo "replace github.com/jackalLabs/canine-chain/v4 => $WT"
} > $ROOT/sim/go.mod
cp $WT/go.sum $ROOT/sim/go.sum
if ! (cd $ROOT/sim && go build -o $ROOT/chainsim . ) 2> $ROOT/build.err; then
  cat $ROOT/build.err; echo "BUILD-FAILED"; rm -rf $ROOT; exit 2
fi
rc=0
for P in $PROP; do
  VERIF_ROOT=$ROOT $ROOT/chainsim check $P $TIER; r=$?
  [ $r -ne 0 ] && rc=$r
done
if [ $rc -eq 1 ] && [ -n "${KEEP_REPLAY:-}" ]; then mkdir -p $KEEP_REPLAY; cp $ROOT/replays/* $KEEP_REPLAY/ 2>/dev/null; fi
rm -rf $ROOT
exit $rc
