#!/bin/bash
# Offline setup: build the simulator once (warms the Go build cache).
cd "$(dirname "$0")"
mkdir -p bin evidence replays .scratch
./build.sh
