#!/bin/bash
# tools/confirm_mutation.sh <ID> <X> [props...]  — confirm a seeded change delivered by a sub-agent in
# /tmp/mut/<ID>/MUTATION/<X>.{patch.diff,demo_test.go,meta.json}: it compiles, the touched packages' existing
# tests pass, the demo fails with it and passes without; then run the given checks (default: <ID>) against it.
set -u
ID=$1; X=$2; shift 2
PROPS=${@:-$ID}
export GOFLAGS=-mod=mod GOPROXY=off GOSUMDB=off GOTOOLCHAIN=local
WT=/tmp/mut/$ID; M=$WT/MUTATION
OUT=/verif/seeded/${NAME:-$ID-$X}; mkdir -p $OUT
cd $WT && git checkout -q -- . && git clean -fdq -e MUTATION -e '*.diff' >/dev/null 2>&1
demo_path=$(python3 -c "import json;print(json.load(open('$M/$X.meta.json'))['demo_path'])")
demo_run=$(python3 -c "import json;print(json.load(open('$M/$X.meta.json'))['demo_run'])")
pkgs=$(grep '^+++ b/' $M/$X.patch.diff | sed 's#+++ b/##' | xargs -n1 dirname | sort -u | sed 's#^#./#' | tr '\n' ' ')
res="{}"
git apply $M/$X.patch.diff || { echo "PATCH DOES NOT APPLY"; exit 2; }
go build ./app/... ./cmd/... ./x/... ./types/... ./wasmbinding/... ./testutil/... > $OUT/build.log 2>&1; b=$?
go test -vet=off -count=1 $pkgs > $OUT/tests_with.log 2>&1; t=$?
cp $M/$X.demo_test.go $WT/$demo_path
( eval "$demo_run" ) > $OUT/demo_with.log 2>&1; dw=$?
git apply -R $M/$X.patch.diff
( eval "$demo_run" ) > $OUT/demo_without.log 2>&1; dwo=$?
rm -f $WT/$demo_path
echo "build=$b existing_tests=$t demo_with_patch=$dw (want !=0) demo_without=$dwo (want 0)"
git apply $M/$X.patch.diff
declare -A RC
for P in $PROPS; do
  KEEP_REPLAY=$OUT/replays-$P /verif/mutcheck.sh $WT $P ${TIER:-quick} > $OUT/check-$P.log 2>&1; RC[$P]=$?
  echo "check $P rc=${RC[$P]}: $(grep -E '^  class=' $OUT/check-$P.log | head -2 | cut -c1-200)"
done
git apply -R $M/$X.patch.diff
cp $M/$X.patch.diff $OUT/patch.diff; cp $M/$X.demo_test.go $OUT/demo_test.go
python3 - "$OUT" "$ID" "$X" "$b" "$t" "$dw" "$dwo" "$(for P in $PROPS; do echo -n "$P=${RC[$P]} "; done)" <<'PY'
import json,sys
out,ID,X,b,t,dw,dwo,rcs=sys.argv[1:9]
m=json.load(open('/tmp/mut/%s/MUTATION/%s.meta.json'%(ID,X)))
m.update({"confirmed":{"builds":b=="0","existing_tests_pass":t=="0","demo_fails_with_change":dw!="0","demo_passes_without":dwo=="0"},
 "checks_run":{kv.split('=')[0]:("caught" if kv.split('=')[1]=="1" else ("missed" if kv.split('=')[1]=="0" else "error rc="+kv.split('=')[1])) for kv in rcs.split()},
 "what_was_run":"tools/confirm_mutation.sh %s %s (go build ./..., go test of touched packages, demo both ways, mutcheck.sh against a scratch worktree)"%(ID,X)})
json.dump(m,open(out+'/meta.json','w'),indent=1)
PY
