#!/usr/bin/env python3
"""Regenerates seeded/TABLE.md from seeded/*/meta.json and the kept check logs."""
import json, glob, os, re
rows = []
for d in sorted(glob.glob('/verif/seeded/*/')):
    name = os.path.basename(d.rstrip('/'))
    mp = d + 'meta.json'
    if not os.path.exists(mp):
        continue
    m = json.load(open(mp))
    runs = m.get('checks_run', {})
    caught = [p for p, r in sorted(runs.items()) if r == 'caught']
    missed = [p for p, r in sorted(runs.items()) if r != 'caught']
    first = []
    for p in caught:
        cls = ''
        lp = d + 'check-%s.log' % p
        if os.path.exists(lp):
            for line in open(lp, errors='replace'):
                mm = re.match(r'\s+class=(\S+(?: [^=]*?)?) run=', line)
                if mm:
                    cls = mm.group(1)
                    break
        first.append('%s `%s`' % (p, cls))
    breaks = re.findall(r'C\d\d', str(m.get('property', '')) + ' ' + str(m.get('violates', '')) + ' ' + ' '.join(m.get('breaks', []) if isinstance(m.get('breaks'), list) else []))
    if not breaks:
        breaks = caught[:1]
    summ = ' '.join(str(m.get('summary', '')).split())[:150].replace('|', '/')
    when = 'after strengthening' if m.get('history') else 'first try'
    if not caught:
        when = 'not caught (see meta.json note)'
    rows.append((name, ','.join(dict.fromkeys(breaks)), summ, '; '.join(first) or 'MISSED', when, ','.join(missed)))
out = ['# Seeded changes and which check catches them', '',
       "Every change below was written by a sub-agent that saw only the property text and a scratch worktree, was confirmed by `tools/confirm_mutation.sh` (compiles, the touched packages' existing tests pass, its demonstration fails with it and passes without it) and is kept as `seeded/<name>/{patch.diff,demo_test.go,meta.json}`. `tools/reseed.sh` re-applies every patch to /repo HEAD in a throw-away worktree and re-runs the check (quick tier, seed 1). The last column names further checks that were run against the change and (legitimately) stayed silent because the change does not break their property.", '',
       '| change | breaks | what (first line of the author\'s summary) | caught by (class of the first report) | when | also run, silent |', '|---|---|---|---|---|---|']
for r in rows:
    out.append('| ' + ' | '.join(r) + ' |')
out.append('')
out.append('%d changes; %d caught at the first try, %d after the strengthening recorded in their meta.json `history`, %d not caught.' % (
    len(rows), sum(1 for r in rows if r[4] == 'first try'), sum(1 for r in rows if r[4] == 'after strengthening'), sum(1 for r in rows if r[4].startswith('not caught'))))
open('/verif/seeded/TABLE.md', 'w').write('\n'.join(out) + '\n')
print(out[-1])
