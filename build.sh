#!/bin/bash
# Builds bin/chainsim from /verif/sim against /repo's current working tree.
# Serialised with flock so parallel checks share one build. Exit 2 on failure.
set -u
cd "$(dirname "$0")"
export GOFLAGS=-mod=mod GOPROXY=off GOSUMDB=off GOTOOLCHAIN=local CGO_ENABLED=1
REPO=${VERIF_REPO:-/repo}
HERE=$(pwd)
exec 9>$HERE/.build.lock
flock 9
# regenerate go.mod from the repo's (same requires, same replaces) on every build
{
  sed -e 's#^module .*#module verif/sim#' "$REPO/go.mod"
  echo
  echo "require github.com/jackalLabs/canine-chain/v4 v4.0.0"
  echo "replace github.com/jackalLabs/canine-chain/v4 => $REPO"
} > sim/go.mod.new
if ! cmp -s sim/go.mod.new sim/go.mod; then mv sim/go.mod.new sim/go.mod; else rm sim/go.mod.new; fi
cmp -s "$REPO/go.sum" sim/go.sum || cp "$REPO/go.sum" sim/go.sum
TAGS=${VERIF_TAGS:-}
OUT=${VERIF_BIN:-$HERE/bin/chainsim}
mkdir -p $HERE/bin
if ! (cd sim && go build -tags "$TAGS" -o "$OUT" . ) 2> $HERE/.build.err; then
  cat $HERE/.build.err >&2
  echo "BUILD-FAILED (machinery or /repo does not compile)" >&2
  exit 2
fi
exit 0
