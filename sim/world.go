package main

import (
	"encoding/json"
	"fmt"
	"os"
	"path/filepath"
	"time"

	"github.com/CosmWasm/wasmd/x/wasm"
	codectypes "github.com/cosmos/cosmos-sdk/codec/types"
	cryptocodec "github.com/cosmos/cosmos-sdk/crypto/codec"
	"github.com/cosmos/cosmos-sdk/crypto/keys/ed25519"
	"github.com/cosmos/cosmos-sdk/crypto/keys/secp256k1"
	sdk "github.com/cosmos/cosmos-sdk/types"
	authtypes "github.com/cosmos/cosmos-sdk/x/auth/types"
	banktypes "github.com/cosmos/cosmos-sdk/x/bank/types"
	crisistypes "github.com/cosmos/cosmos-sdk/x/crisis/types"
	govtypes "github.com/cosmos/cosmos-sdk/x/gov/types"
	slashingtypes "github.com/cosmos/cosmos-sdk/x/slashing/types"
	stakingtypes "github.com/cosmos/cosmos-sdk/x/staking/types"
	abci "github.com/tendermint/tendermint/abci/types"
	"github.com/tendermint/tendermint/libs/log"
	tmproto "github.com/tendermint/tendermint/proto/tendermint/types"
	dbm "github.com/tendermint/tm-db"

	"github.com/jackalLabs/canine-chain/v4/app"
	wasmappparams "github.com/jackalLabs/canine-chain/v4/app/params"
	minttypes "github.com/jackalLabs/canine-chain/v4/x/jklmint/types"
	notiftypes "github.com/jackalLabs/canine-chain/v4/x/notifications/types"
	oracletypes "github.com/jackalLabs/canine-chain/v4/x/oracle/types"
	rnstypes "github.com/jackalLabs/canine-chain/v4/x/rns/types"
	storagetypes "github.com/jackalLabs/canine-chain/v4/x/storage/types"
)

const chainID = "verif-1"
const denom = "ujkl"
const denom2 = "uatom" // second denom for multi-denom bids

// Config is the per-run configuration ("knobs"). It is part of the replay file.
type Config struct {
	InitialHeight  int64               `json:"initial_height"`
	GenesisUnix    int64               `json:"genesis_unix"`
	NAccts         int                 `json:"n_accts"`
	Balance        int64               `json:"balance"`  // ujkl per account
	PoorAccts      []int               `json:"poor,omitempty"` // accounts that get only PoorBalance
	PoorBalance    int64               `json:"poor_balance,omitempty"`
	InvCheckPeriod uint                `json:"inv_check_period"`
	Replicas       int                 `json:"replicas"` // extra full replicas (C06)
	Storage        storagetypes.Params `json:"storage"`
	Mint           minttypes.Params    `json:"mint"`
	SeedNames      []SeedName          `json:"seed_names,omitempty"`
	SeedFeed       string              `json:"seed_feed,omitempty"` // price string for the jklprice feed, "" = no feed
	Files          []FileSpec          `json:"files,omitempty"`
	NoValidator    bool                `json:"no_validator,omitempty"`
	BlockMaxGas    int64               `json:"block_max_gas"`
}

type SeedName struct {
	Name    string `json:"name"`
	Tld     string `json:"tld"`
	Owner   int    `json:"owner"`
	Expires int64  `json:"expires"`
	Locked  int64  `json:"locked,omitempty"`
}

// FileSpec describes the content of a file an actor may store. The bytes are
// derived from DataSeed so the schedule stays small.
type FileSpec struct {
	Size     int64  `json:"size"`
	DataSeed uint64 `json:"data_seed"`
}

type Acct struct {
	Idx   int
	Priv  *secp256k1.PrivKey
	Addr  sdk.AccAddress
	Bech  string
}

type Node struct {
	app  *app.JackalApp
	db   dbm.DB
	home string
	name string
}

var encCfg wasmappparams.EncodingConfig
var bechInit bool

func initSDK() {
	if bechInit {
		return
	}
	bechInit = true
	cfg := sdk.GetConfig()
	cfg.SetBech32PrefixForAccount(app.Bech32PrefixAccAddr, app.Bech32PrefixAccPub)
	cfg.SetBech32PrefixForValidator(app.Bech32PrefixValAddr, app.Bech32PrefixValPub)
	cfg.SetBech32PrefixForConsensusNode(app.Bech32PrefixConsAddr, app.Bech32PrefixConsPub)
	cfg.Seal()
	encCfg = app.MakeEncodingConfig()
}

var scratchRoot string
var scratchN int

func scratchDir() string {
	if scratchRoot == "" {
		base := os.Getenv("VERIF_SCRATCH")
		if base == "" {
			base = verifRoot + "/.scratch"
		}
		scratchRoot = filepath.Join(base, fmt.Sprintf("%d", os.Getpid()))
		if err := os.MkdirAll(scratchRoot, 0o755); err != nil {
			panic(err)
		}
	}
	scratchN++
	d := filepath.Join(scratchRoot, fmt.Sprintf("n%d", scratchN))
	_ = os.MkdirAll(d, 0o755)
	return d
}

func cleanupScratch() {
	if scratchRoot != "" {
		_ = os.RemoveAll(scratchRoot)
	}
}

func newNode(name string, db dbm.DB, home string, invCheck uint) *Node {
	if home == "" {
		home = scratchDir()
	}
	a := app.NewJackalApp(log.NewNopLogger(), db, nil, true, map[int64]bool{}, home, invCheck,
		encCfg, wasm.EnableAllProposals, app.EmptyBaseAppOptions{}, nil)
	return &Node{app: a, db: db, home: home, name: name}
}

func makeAcct(i int) *Acct {
	priv := secp256k1.GenPrivKeyFromSecret([]byte(fmt.Sprintf("verif-acct-%d", i)))
	addr := sdk.AccAddress(priv.PubKey().Address())
	return &Acct{Idx: i, Priv: priv, Addr: addr, Bech: addr.String()}
}

func valKey() *ed25519.PrivKey { return ed25519.GenPrivKeyFromSecret([]byte("verif-validator")) }

// buildGenesis creates the genesis app state for a run.
func buildGenesis(cfg *Config, accts []*Acct) app.GenesisState {
	gs := app.NewDefaultGenesisState()
	cdc := encCfg.Marshaler

	var genAccs []authtypes.GenesisAccount
	var balances []banktypes.Balance
	total := sdk.NewCoins()
	poor := map[int]bool{}
	for _, p := range cfg.PoorAccts {
		poor[p] = true
	}
	for _, a := range accts {
		genAccs = append(genAccs, authtypes.NewBaseAccount(a.Addr, nil, 0, 0))
		amt := cfg.Balance
		if poor[a.Idx] {
			amt = cfg.PoorBalance
		}
		c := sdk.NewCoins(sdk.NewInt64Coin(denom, amt), sdk.NewInt64Coin(denom2, amt))
		balances = append(balances, banktypes.Balance{Address: a.Bech, Coins: c})
		total = total.Add(c...)
	}
	gs[authtypes.ModuleName] = cdc.MustMarshalJSON(authtypes.NewGenesisState(authtypes.DefaultParams(), genAccs))

	if !cfg.NoValidator {
		vk := valKey()
		pk := vk.PubKey()
		pkAny, err := codectypes.NewAnyWithValue(pk)
		if err != nil {
			panic(err)
		}
		bondAmt := sdk.NewInt(1000000)
		val := stakingtypes.Validator{
			OperatorAddress:   sdk.ValAddress(pk.Address()).String(),
			ConsensusPubkey:   pkAny,
			Jailed:            false,
			Status:            stakingtypes.Bonded,
			Tokens:            bondAmt,
			DelegatorShares:   sdk.OneDec(),
			Description:       stakingtypes.Description{},
			UnbondingHeight:   0,
			UnbondingTime:     time.Unix(0, 0).UTC(),
			Commission:        stakingtypes.NewCommission(sdk.ZeroDec(), sdk.ZeroDec(), sdk.ZeroDec()),
			MinSelfDelegation: sdk.ZeroInt(),
		}
		del := stakingtypes.NewDelegation(accts[0].Addr, pk.Address().Bytes(), sdk.OneDec())
		sp := stakingtypes.DefaultParams()
		sp.BondDenom = denom
		gs[stakingtypes.ModuleName] = cdc.MustMarshalJSON(stakingtypes.NewGenesisState(sp, []stakingtypes.Validator{val}, []stakingtypes.Delegation{del}))
		sl := slashingtypes.DefaultGenesisState()
		consAddr := sdk.ConsAddress(pk.Address())
		sl.SigningInfos = []slashingtypes.SigningInfo{{Address: consAddr.String(),
			ValidatorSigningInfo: slashingtypes.NewValidatorSigningInfo(consAddr, 0, 0, time.Unix(0, 0).UTC(), false, 0)}}
		gs[slashingtypes.ModuleName] = cdc.MustMarshalJSON(sl)
		bc := sdk.NewCoin(denom, bondAmt)
		balances = append(balances, banktypes.Balance{
			Address: authtypes.NewModuleAddress(stakingtypes.BondedPoolName).String(),
			Coins:   sdk.Coins{bc},
		})
		total = total.Add(bc)
	}
	gs[banktypes.ModuleName] = cdc.MustMarshalJSON(banktypes.NewGenesisState(banktypes.DefaultGenesisState().Params, balances, total, []banktypes.Metadata{}))

	// governance: tiny deposit and a one-microsecond voting period, so a proposal voted in block b
	// is executed by the end-blocker of the next block whose time has advanced
	gg := govtypes.DefaultGenesisState()
	gg.DepositParams.MinDeposit = sdk.NewCoins(sdk.NewInt64Coin(denom, 1))
	gg.VotingParams.VotingPeriod = time.Microsecond
	gs[govtypes.ModuleName] = cdc.MustMarshalJSON(gg)

	cg := crisistypes.DefaultGenesisState()
	cg.ConstantFee = sdk.NewInt64Coin(denom, 1000)
	gs[crisistypes.ModuleName] = cdc.MustMarshalJSON(cg)

	// storage
	sg := storagetypes.DefaultGenesis()
	sg.Params = cfg.Storage
	gs[storagetypes.ModuleName] = cdc.MustMarshalJSON(sg)

	// mint
	mg := minttypes.DefaultGenesis()
	mg.Params = cfg.Mint
	gs[minttypes.ModuleName] = cdc.MustMarshalJSON(mg)

	// oracle: the default Deposit is a cosmos1.. address that does not parse under
	// this chain's prefix; use a funded-chain address so CreateFeed can work.
	og := oracletypes.DefaultGenesis()
	og.Params.Deposit = accts[0].Bech
	if cfg.SeedFeed != "" {
		og.FeedList = append(og.FeedList, oracletypes.Feed{
			Owner:      accts[0].Bech,
			Data:       fmt.Sprintf(`{"price":"%s","24h_change":"0"}`, cfg.SeedFeed),
			LastUpdate: time.Unix(cfg.GenesisUnix, 0).UTC(),
			Name:       cfg.Storage.PriceFeed,
		})
	}
	gs[oracletypes.ModuleName] = cdc.MustMarshalJSON(og)

	// rns seeded names
	rg := rnstypes.DefaultGenesis()
	for _, n := range cfg.SeedNames {
		rg.NamesList = append(rg.NamesList, rnstypes.Names{
			Name: n.Name, Tld: n.Tld, Expires: n.Expires, Value: accts[n.Owner].Bech,
			Data: "{}", Subdomains: nil, Locked: n.Locked,
		})
	}
	gs[rnstypes.ModuleName] = cdc.MustMarshalJSON(rg)

	_ = notiftypes.ModuleName
	return gs
}

func consensusParams(cfg *Config) *abci.ConsensusParams {
	cp := *app.DefaultConsensusParams
	blk := *cp.Block
	if cfg.BlockMaxGas != 0 {
		blk.MaxGas = cfg.BlockMaxGas
	}
	cp.Block = &blk
	return &cp
}

func initChainReq(cfg *Config, gs app.GenesisState) abci.RequestInitChain {
	stateBytes, err := json.Marshal(gs)
	if err != nil {
		panic(err)
	}
	return abci.RequestInitChain{
		Time:            time.Unix(cfg.GenesisUnix, 0).UTC(),
		ChainId:         chainID,
		ConsensusParams: consensusParams(cfg),
		Validators:      []abci.ValidatorUpdate{},
		AppStateBytes:   stateBytes,
		InitialHeight:   cfg.InitialHeight,
	}
}

func valCommitInfo(cfg *Config) abci.LastCommitInfo {
	if cfg.NoValidator {
		return abci.LastCommitInfo{}
	}
	pk := valKey().PubKey()
	return abci.LastCommitInfo{Votes: []abci.VoteInfo{{
		Validator:       abci.Validator{Address: pk.Address(), Power: 1},
		SignedLastBlock: true,
	}}}
}

var _ = cryptocodec.FromTmPubKeyInterface
var _ = tmproto.Header{}
