package main

import (
	"fmt"
	"math/big"
	"time"

	sdk "github.com/cosmos/cosmos-sdk/types"
	abci "github.com/tendermint/tendermint/abci/types"

)

// ---------------- C12: payment gauges stream linearly, never more than pro-rata ----------------

type gaugeModel struct {
	D        *big.Int // deposited
	C        *big.Int // cumulative released
	S, E     time.Time
	deposits int
	inside   int // reward blocks seen inside the interval
}

type oracleC12 struct {
	NopOracle
	g       map[string]*gaugeModel
	preBal  Bal
	reward  bool
	preStep Bal
	blockDeposits  map[string]int
	blockDepositsH int64
}

func (o *oracleC12) Start(w *World) { o.g = map[string]*gaugeModel{} }

func (o *oracleC12) BeforeStep(w *World, st *Step, msgs []sdk.Msg) { o.preStep = w.Balances() }

func (o *oracleC12) AfterStep(w *World, st *Step, msgs []sdk.Msg, res *abci.ResponseDeliverTx) {
	post := w.Balances()
	gs := readGauges(w)
	// deposits: inflow into an account that a gauge record designates
	for a, pg := range gs.accts {
		d := post.Of(a, denom).Sub(o.preStep.Of(a, denom))
		if !d.IsPositive() {
			continue
		}
		m := o.g[a]
		if m == nil {
			m = &gaugeModel{D: new(big.Int), C: new(big.Int), S: pg.Start, E: pg.End}
			o.g[a] = m
		}
		m.D.Add(m.D, d.BigInt())
		m.deposits++
		sig := fmt.Sprintf("%d|%s|%s", w.height, d.String(), pg.End.UTC().Format(time.RFC3339Nano))
		if o.blockDeposits == nil || o.blockDepositsH != w.height {
			o.blockDeposits, o.blockDepositsH = map[string]int{}, w.height
		}
		o.blockDeposits[sig]++
		if o.blockDeposits[sig] > 1 {
			w.Probe("equal_purchases_same_block") // same amount, same end, same block — whatever the gauge identity scheme
		}
		if m.deposits > 1 {
			w.Probe("gauge_same_block_collision")
		}
		w.Probe("gauge_deposit")
	}
	// between reward blocks nothing may leave a gauge account
	for a := range o.g {
		d := post.Of(a, denom).Sub(o.preStep.Of(a, denom))
		if d.IsNegative() {
			w.Violate("C12:release-outside-reward-block", "gauge account %s lost %s in a transaction (%s)", a, d.Neg(), shortKind(msgs))
		}
	}
}

func (o *oracleC12) BeforeBegin(w *World) {
	o.preBal = w.Balances()
	o.reward = isRewardHeight(w, w.height)
}

func us(d time.Duration) *big.Int { return big.NewInt(d.Microseconds()) }

func (o *oracleC12) AfterBegin(w *World, _ *abci.ResponseBeginBlock) {
	post := w.Balances()
	t := w.now
	released := sdk.ZeroInt()
	for _, a := range sortedKeys(o.g) {
		m := o.g[a]
		suffix := ""
		if m.deposits > 1 {
			suffix = ":same-block-equal-gauges"
		}
		out := o.preBal.Of(a, denom).Sub(post.Of(a, denom))
		released = released.Add(out)
		if out.IsNegative() {
			w.Violate("C12:negative-release"+suffix, "gauge %s gained %s in begin-block", a, out.Neg())
			continue
		}
		if !o.reward {
			if out.IsPositive() {
				w.Violate("C12:release-outside-reward-block"+suffix, "gauge %s released %s at height %d which is not a reward block", a, out, w.height)
			}
			continue
		}
		if t.After(m.E) {
			if out.IsPositive() {
				w.Violate("C12:release-after-end"+suffix, "gauge %s released %s at %s, after its end %s", a, out, t, m.E)
			}
			w.Probe("reward_block_after_gauge_end")
			continue
		}
		if t.Before(m.S) {
			if out.IsPositive() {
				w.Violate("C12:release-before-start"+suffix, "gauge %s released %s before its start", a, out)
			}
			continue
		}
		total := us(m.E.Sub(m.S))
		if total.Sign() <= 0 {
			continue
		}
		m.C.Add(m.C, out.BigInt())
		left := us(m.E.Sub(t))
		// expected cumulative = floor((total-left)/total * D)
		num := new(big.Int).Sub(total, left)
		num.Mul(num, m.D)
		exp := new(big.Int).Quo(num, total)
		diff := new(big.Int).Sub(m.C, exp)
		where := "inside"
		if t.Equal(m.E) {
			where = "at-end"
			w.Probe("reward_block_at_gauge_end")
		}
		if diff.CmpAbs(big.NewInt(1)) > 0 {
			w.Violate("C12:release≠prorata:"+where+suffix, "gauge %s (deposit %s, %s..%s): cumulative release %s at %s, pro-rata %s", a, m.D, m.S.Format(time.RFC3339Nano), m.E.Format(time.RFC3339Nano), m.C, t.Format(time.RFC3339Nano), exp)
		}
		if m.C.Cmp(m.D) > 0 {
			w.Violate("C12:cumulative>deposit"+suffix, "gauge %s released %s of %s deposited", a, m.C, m.D)
		}
		m.inside++
		if m.inside >= 3 {
			w.Probe("gauge_3_reward_blocks_inside")
			w.NonTrivial()
		}
		if out.IsPositive() {
			w.Probe("gauge_release")
		}
	}
	if o.reward {
		// what leaves the gauges reaches the reward pool (storage module) and provers, nothing else
		initAddrs()
		ex := (&oracleC01{}).mintRecipients(w)
		delete(ex, addrStorage)
		sum := sdk.ZeroInt()
		for a, d := range o.preBal.Delta(post, denom) {
			if ex[a] {
				continue
			}
			if _, isG := o.g[a]; isG {
				continue
			}
			sum = sum.Add(d)
		}
		if !sum.Equal(released) {
			w.Violate("C12:pool-conservation", "reward block %d: gauges released %s but the reward pool and provers received %s", w.height, released, sum)
		}
	}
}

func (o *oracleC12) AfterBlock(w *World) { w.State(hashHex(fmt.Sprint(len(o.g)))) }

func init() {
	register(&Property{
		ID:        "C12",
		NewGen:    func() Generator { return &genStorage{profile: "gauges"} },
		NewOracle: func() Oracle { return &oracleC12{} },
		Runs:      map[string]int{"quick": 400, "thorough": 10000},
		Required:  []string{"gauge_deposit", "gauge_release", "gauge_3_reward_blocks_inside", "reward_block_after_gauge_end", "equal_purchases_same_block"},
		Rule: "online-generated histories of plan purchases and pay-once posts (amounts 1..10^13 ujkl, durations 1 day..3 years, equal purchases by different buyers in one block), check window 2..6, block time deltas from {0, microseconds, 6 s, hours, days, beyond the gauge's end}; " +
			"non-trivial = some gauge saw at least three reward blocks inside its interval; distinct = distinct (message kind, outcome) sequences",
	})
}
