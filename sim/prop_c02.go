package main

import (
	sdk "github.com/cosmos/cosmos-sdk/types"
	abci "github.com/tendermint/tendermint/abci/types"

	storagetypes "github.com/jackalLabs/canine-chain/v4/x/storage/types"
)

// ---------------- C02: honest provers can always prove, never dropped or burned ----------------

type c02Track struct {
	joinWin int64
	wins    map[int64]bool // windows with an accepted proof / join / completed attestation
}

type oracleC02 struct {
	NopOracle
	pre     storSnap
	track   map[string]*c02Track // pkey
	reward  bool
	preRew  storSnap
}

func (o *oracleC02) Start(w *World) { o.track = map[string]*c02Track{} }

func (o *oracleC02) BeforeStep(w *World, st *Step, msgs []sdk.Msg) { o.pre = readStor(w) }

func winOf(f *storagetypes.UnifiedFile, h int64) int64 {
	if f.ProofInterval <= 0 {
		return 0
	}
	return (h - f.Start) / f.ProofInterval
}

func (o *oracleC02) checkChallenges(w *World, s *storSnap, where string) {
	cs := w.storageParams().ChunkSize
	for k, p := range s.proofs {
		f, ok := s.files[fkey(p.Merkle, p.Owner, p.Start)]
		if !ok || f.FileSize < 1 {
			continue
		}
		if !f.ContainsProver(p.Prover) {
			continue
		}
		n := nChunks(f.FileSize, cs)
		if p.ChunkToProve < 0 || p.ChunkToProve >= n {
			w.Violate("C02:challenge-out-of-range", "%s: proof record %s is challenged with chunk %d but the file (size %d, chunk size %d) has %d chunks", where, k, p.ChunkToProve, f.FileSize, cs, n)
		}
	}
}

func (o *oracleC02) AfterStep(w *World, st *Step, msgs []sdk.Msg, res *abci.ResponseDeliverTx) {
	post := readStor(w)
	o.checkChallenges(w, &post, "after "+shortKind(msgs))
	cands := w.allBech()
	if len(msgs) == 1 {
		if pp, ok := msgs[0].(*storagetypes.MsgPostProof); ok {
			v := judgeProof(&o.pre, pp)
			success := false
			if res.Code == 0 {
				var r storagetypes.MsgPostProofResponse
				if decodeResp(res.Data, 0, &r) {
					success = r.Success
				}
			}
			role := "newcomer"
			if v.listed {
				role = "member"
			}
			// the file's declared size must be its real size for the honest obligation
			realSize := false
			for _, fi := range w.files {
				if fi.Merkle != nil && string(fi.Merkle) == string(pp.Merkle) && int64(len(fi.Data)) == v.f.FileSize {
					realSize = true
				}
			}
			if v.validStrict && realSize && !success {
				legit := res.Code != 0 && (st.Gas != 0 || st.Kind != "tx")
				if !legit {
					w.Violate("C02:honest-proof-rejected:"+role, "valid proof of the challenged chunk by %s on %x was not accepted (code %d): %s", pp.Creator, pp.Merkle, res.Code, res.Log)
				}
			}
			if v.validStrict && realSize {
				w.Probe("honest_proof_judged:" + role)
			}
			if _, un := w.X["honest_unanswerable"]; un {
				delete(w.X, "honest_unanswerable")
				if v.fileFound && v.f.FileSize >= 1 && realSize {
					w.Violate("C02:challenge-out-of-range", "honest prover %s cannot answer the challenge on %x: it designates no existing chunk", pp.Creator, pp.Merkle)
				}
			}
			if success {
				key := pkey(pp.Creator, pp.Merkle, pp.Owner, pp.Start)
				f := v.f
				t := o.track[key]
				if t == nil || !v.listed {
					t = &c02Track{joinWin: winOf(&f, w.height), wins: map[int64]bool{}}
					o.track[key] = t
				}
				t.wins[winOf(&f, w.height)] = true
			}
		}
	}
	// attestation quorum completion refreshes the deadline: counts as accepted for this window
	for k, q := range post.proofs {
		p, ok := o.pre.proofs[k]
		if ok && q.LastProven == w.height && p.LastProven != w.height {
			if t := o.track[k]; t != nil {
				if f, fok := post.files[fkey(q.Merkle, q.Owner, q.Start)]; fok {
					t.wins[winOf(&f, w.height)] = true
				}
			}
		}
	}
	// removals outside reward blocks (report quorum, deletion, re-post) end the obligation
	for k, pf := range o.pre.files {
		before := listedOn(&pf, cands)
		qf, ok := post.files[k]
		after := map[string]bool{}
		if ok {
			after = listedOn(&qf, cands)
		}
		for a := range before {
			if !after[a] {
				delete(o.track, a+"|"+k)
			}
		}
	}
}

func (o *oracleC02) BeforeBegin(w *World) {
	o.reward = isRewardHeight(w, w.height)
	if o.reward {
		o.preRew = readStor(w)
	}
}

func (o *oracleC02) diligent(t *c02Track, f *storagetypes.UnifiedFile, h int64) bool {
	cur := winOf(f, h)
	for k := t.joinWin; k < cur; k++ {
		if !t.wins[k] {
			return false
		}
	}
	return true
}

func (o *oracleC02) AfterBegin(w *World, _ *abci.ResponseBeginBlock) {
	if !o.reward {
		return
	}
	post := readStor(w)
	o.checkChallenges(w, &post, "begin-block")
	cands := w.allBech()
	w.Probe("reward_block")
	for _, a := range cands {
		allDiligent := true
		any := false
		for k, pf := range o.preRew.files {
			if !pf.ContainsProver(a) {
				continue
			}
			pf := pf
			t := o.track[a+"|"+k]
			if t == nil || !o.diligent(t, &pf, w.height) {
				allDiligent = false
				// obligation lapsed for this pair
				if qf, ok := post.files[k]; !ok || !qf.ContainsProver(a) {
					delete(o.track, a+"|"+k)
				}
				continue
			}
			any = true
			cur := winOf(&pf, w.height)
			if cur-t.joinWin >= 3 {
				w.Probe("diligent_3_windows")
			}
			if pf.ProofInterval > 0 && (w.height-pf.Start)%pf.ProofInterval == 0 {
				w.Probe("reward_block_at_window_edge")
			}
			qf, ok := post.files[k]
			if !ok || !qf.ContainsProver(a) {
				w.Violate("C02:diligent-removed", "prover %s had a proof accepted in every window of %s (joined window %d, now window %d, height %d, interval %d) but reward block %d removed it", a, k, t.joinWin, cur, w.height, pf.ProofInterval, w.height)
			}
		}
		if any {
			w.NonTrivial()
			w.Probe("diligent_checked")
		}
		if any && allDiligent {
			if post.burns[a] > o.preRew.burns[a] {
				w.Violate("C02:diligent-burned", "provider %s met every obligation but its burn counter rose %d -> %d at reward block %d", a, o.preRew.burns[a], post.burns[a], w.height)
			}
		}
	}
}

func init() {
	register(&Property{
		ID:        "C02",
		NewGen:    func() Generator { return &genStorage{profile: "proofs"} },
		NewOracle: func() Oracle { return &oracleC02{} },
		Runs:      map[string]int{"quick": 500, "thorough": 12000},
		Required:  []string{"honest_proof_judged:member", "honest_proof_judged:newcomer", "diligent_checked", "diligent_3_windows", "reward_block_at_window_edge"},
		Rule: "same generator as C01 (profile proofs) with diligent provers proving once per proof window at a PRNG-chosen offset (first block, last block, random) under all (start, proof window, check window) residues; " +
			"non-trivial = a reward block was crossed by a prover with an accepted proof in every window so far; distinct = distinct (message kind, outcome) sequences",
	})
}
