package main

import (
	"fmt"
	"math"
)

// genStorage is the shared storage workload: users buying plans and posting /
// deleting files, providers registering, provers proving diligently, lazily or
// dishonestly, attestation and report traffic, parameter changes, and the
// network faults chosen for the run. Profiles only change the mix.
type genStorage struct {
	profile string
	net     *Net
	nb      int
	users   []int
	provers []int
	sink    int
	stipend int
	nFiles  int
	// per (prover,file) behaviour: 0 absent, 1 diligent, 2 lazy, 3 cheater
	behave  map[[2]int]int
	lazyAt  map[[2]int]int // block index after which a lazy prover stops
	target  map[[3]int64]int64 // (prover,file,window) -> offset inside window at which to prove
	jumps   bool
	pw, cw  int64
	mix     storMix
	posted  map[int]int // file -> times posted
}

type storMix struct {
	postPlan, postOnce, del, buy, badProof, newcomerBad, attest, report, param, bank, repostSameBlock, zeroSize int
	maxFiles                                                                                               int
	provider                                                                                               int // per-mille per block of provider management traffic
}

var storMixes = map[string]storMix{
	"proofs":   {postPlan: 10, postOnce: 4, del: 1, buy: 3, badProof: 25, newcomerBad: 20, attest: 14, report: 1, param: 3, bank: 1, maxFiles: 4, provider: 30},
	"rewards":  {postPlan: 12, postOnce: 3, del: 1, buy: 4, badProof: 2, newcomerBad: 2, attest: 0, report: 0, param: 3, bank: 1, maxFiles: 5, provider: 20},
	"usage":    {postPlan: 30, postOnce: 8, del: 14, buy: 10, badProof: 0, newcomerBad: 0, attest: 0, report: 0, param: 0, bank: 1, repostSameBlock: 6, maxFiles: 6, provider: 0},
	"gauges":   {postPlan: 4, postOnce: 14, del: 0, buy: 16, badProof: 0, newcomerBad: 0, attest: 0, report: 0, param: 0, bank: 0, maxFiles: 4, provider: 0},
	"attest":   {postPlan: 10, postOnce: 2, del: 1, buy: 3, badProof: 1, newcomerBad: 1, attest: 40, report: 30, param: 3, bank: 0, maxFiles: 3, provider: 40},
	"mixed":    {postPlan: 14, postOnce: 5, del: 8, buy: 4, badProof: 8, newcomerBad: 8, attest: 8, report: 8, param: 1, bank: 1, repostSameBlock: 5, maxFiles: 5, provider: 120},
}

func (g *genStorage) Config(rng *Rng, tier string) Config {
	c := baseConfig(rng)
	g.mix = storMixes[g.profile]
	nu := 2 + rng.Intn(2)
	np := 2 + rng.Intn(5)
	if g.profile == "attest" {
		np = 3 + rng.Intn(6)
	}
	if g.profile == "rewards" && np < 3 {
		np = 3
	}
	if g.profile == "gauges" {
		nu = 3 // three distinct buyers for equal purchases in one block
	}
	c.NAccts = 1 + nu + np + 2
	for i := 0; i < nu; i++ {
		g.users = append(g.users, 1+i)
	}
	for i := 0; i < np; i++ {
		g.provers = append(g.provers, 1+nu+i)
	}
	g.sink = 1 + nu + np
	g.stipend = g.sink + 1
	c.Mint.StorageStipendAddress = makeAcct(g.stipend).Bech
	c.Storage.ChunkSize = rng.Pick64(1, 7, 64, 1024)
	c.Storage.ProofWindow = rng.Range(2, 12)
	c.Storage.CheckWindow = rng.Range(2, 15)
	if g.profile == "gauges" {
		c.Storage.CheckWindow = rng.Range(2, 6)
	}
	c.Storage.CollateralPrice = rng.Pick64(2, 1000, 1_000_000)
	c.Storage.AttestFormSize = rng.Range(1, 5)
	c.Storage.AttestMinToPass = rng.Range(0, c.Storage.AttestFormSize)
	if g.profile == "attest" {
		if int64(np)-1 < c.Storage.AttestFormSize {
			c.Storage.AttestFormSize = int64(np) - 1
			c.Storage.AttestMinToPass = rng.Range(0, c.Storage.AttestFormSize)
		}
	}
	g.pw, g.cw = c.Storage.ProofWindow, c.Storage.CheckWindow
	c.InitialHeight = rng.Pick64(1, 1, 2, 17, 1000, 5_000_000)
	g.nFiles = 1 + rng.Intn(g.mix.maxFiles)
	cs := c.Storage.ChunkSize
	for i := 0; i < g.nFiles; i++ {
		var size int64
		switch rng.Intn(7) {
		case 0:
			size = 1
		case 1:
			size = cs
		case 2:
			size = cs + 1
		case 3:
			if cs > 1 {
				size = cs - 1
			} else {
				size = 2
			}
		case 4:
			size = cs * rng.Range(2, 6)
		default:
			size = cs*rng.Range(0, 7) + rng.Range(1, cs)
		}
		if size > 9000 {
			size = 9000 - rng.Range(0, 100)
		}
		if size < 1 {
			size = 1
		}
		c.Files = append(c.Files, FileSpec{Size: size, DataSeed: rng.U64()})
	}
	if rng.Chance(1, 3) {
		c.SeedFeed = rng.PickS("0.20", "0.000001", "1", "10000", "0.05")
	}
	c.InvCheckPeriod = uint(rng.Pick64(0, 0, 0, 1, 7))
	g.jumps = g.profile == "gauges" || g.profile == "usage" || rng.Chance(1, 4)
	allowed := []string{"tx_dup", "tx_delay", "tx_reorder", "out_of_gas", "crash_restart", "tx_drop", "multi_msg"}
	g.net = newNet(rng, allowed, int(3*g.pw))
	g.nb = 30 + rng.Intn(35)
	if tier == "thorough" {
		g.nb = 40 + rng.Intn(80)
	}
	g.behave = map[[2]int]int{}
	g.lazyAt = map[[2]int]int{}
	g.target = map[[3]int64]int64{}
	g.posted = map[int]int{}
	for _, p := range g.provers {
		for f := 0; f < g.nFiles; f++ {
			v := rng.Intn(100)
			key := [2]int{p, f}
			if g.profile == "rewards" || g.profile == "attest" {
				v = v * 55 / 100 // every prover takes part in most files
				if v >= 25 && v < 47 {
					v = 32 + (v-25)*15/22
				}
			}
			switch {
			case v < 32:
				g.behave[key] = 1
			case v < 47:
				g.behave[key] = 2
				g.lazyAt[key] = rng.Intn(g.nb)
			case v < 55:
				g.behave[key] = 3
			}
		}
	}
	return c
}

func (g *genStorage) NBlocks() int { return g.nb }

func (g *genStorage) Block(w *World, b int) Block {
	rng := w.rng
	blk := Block{DtNs: pickDt(rng, g.jumps)}
	h := w.height + 1
	var steps []Step
	add := func(st Step) { steps = append(steps, st) }
	m := g.mix
	if b == 0 {
		for _, p := range g.provers {
			if rng.Chance(9, 10) {
				dom := rng.Intn(3)
				if g.profile == "attest" {
					dom = rng.Intn(len(g.provers))
				}
				add(txStep(mkOp("init_provider", p).withS("ip", providerHost(rng, p, dom))))
			}
		}
		for _, u := range g.users {
			if rng.Chance(4, 5) {
				add(txStep(g.buyOp(rng, u)))
			}
		}
	}
	// user traffic
	nUser := rng.Intn(3)
	if b < 6 {
		nUser++
	}
	for i := 0; i < nUser; i++ {
		u := g.users[rng.Intn(len(g.users))]
		f := rng.Intn(g.nFiles)
		switch rng.Weighted([]int{m.postPlan, m.postOnce, m.del, m.buy, m.bank, m.repostSameBlock, m.param}) {
		case 0:
			if g.livePosts(w, f) < 2 {
				add(txStep(g.postOp(rng, u, f, false)))
			}
		case 1:
			if g.livePosts(w, f) < 2 {
				add(txStep(g.postOp(rng, u, f, true)))
			}
		case 2:
			if fi := w.files[f]; len(fi.Posts) > 0 {
				pi := rng.Intn(len(fi.Posts))
				owner := fi.Posts[pi].Owner
				if rng.Chance(1, 8) {
					owner = u // possibly a stranger
				}
				add(txStep(mkOp("delete_file", owner).withN("file", int64(f)).withN("post", int64(pi))))
			}
		case 3:
			op := g.buyOp(rng, u)
			if g.profile == "usage" && rng.Chance(1, 3) {
				// a purchase sized around what the account already holds (whole GB below, just below, equal, just above)
				if pi, found := w.node().app.StorageKeeper.GetStoragePaymentInfo(w.Ctx(), w.accts[u].Bech); found && pi.SpaceUsed > 0 {
					gb := int64(1_000_000_000)
					used := pi.SpaceUsed
					b := rng.Pick64(used/gb*gb, used-1, used, used+1, (used/gb+1)*gb)
					if b >= gb {
						op.N["bytes"] = b
						delete(op.N, "for")
						w.Probe("purchase_sized_around_usage")
					}
				}
			}
			add(txStep(op))
		case 4:
			add(txStep(mkOp("bank_send", 0).withN("to", int64(u)).withN("amt", rng.Range(1, 1_000_000))))
		case 5: // same (merkle, owner, start): two posts of the same content in one block
			add(txStep(g.postOp(rng, u, f, false)))
			add(txStep(g.postOp(rng, u, f, rng.Chance(1, 4))))
		case 6:
			add(g.paramStep(rng))
		}
	}
	if g.profile == "gauges" && rng.Chance(1, 10) && len(g.users) >= 3 {
		// one signer buys equal plans for two other accounts in a single transaction
		op := g.buyOp(rng, g.users[0])
		delete(op.N, "ref")
		delete(op.S, "refstr")
		op.N["for"] = int64(g.users[1])
		op2 := mkOp("buy_storage", g.users[0])
		for k, v := range op.N {
			op2.N[k] = v
		}
		op2.N["for"] = int64(g.users[2])
		st := txStep(op, op2)
		st.Fault = "multi_msg"
		add(st)
	}
	if g.profile == "gauges" && rng.Chance(1, 6) && len(g.users) >= 2 {
		// two buyers, equal parameters, same block: equal gauge identity
		a, bb := g.users[0], g.users[1]
		if rng.Chance(1, 2) {
			op := g.buyOp(rng, a)
			delete(op.N, "ref")
			delete(op.N, "for")
			delete(op.S, "refstr")
			op2 := mkOp("buy_storage", bb)
			for k, v := range op.N {
				op2.N[k] = v
			}
			add(txStep(op))
			add(txStep(op2))
			if rng.Chance(1, 2) { // a third equal purchase, by the first buyer's neighbour or again by a
				op3 := mkOp("buy_storage", g.users[len(g.users)-1])
				for k, v := range op.N {
					op3.N[k] = v
				}
				add(txStep(op3))
			}
		} else {
			f := rng.Intn(g.nFiles)
			op := g.postOp(rng, a, f, true)
			op2 := mkOp("post_file", bb)
			for k, v := range op.N {
				op2.N[k] = v
			}
			add(txStep(op))
			add(txStep(op2))
		}
	}
	if m.provider > 0 && rng.Intn(1000) < m.provider {
		p := g.provers[rng.Intn(len(g.provers))]
		switch rng.Intn(7) {
		case 0, 1:
			add(txStep(mkOp("shutdown_provider", p)))
		case 2, 3:
			add(txStep(mkOp("init_provider", p).withS("ip", providerHost(rng, p, rng.Intn(3)))))
		case 4:
			add(txStep(mkOp("set_ip", p).withS("ip", providerHost(rng, p, rng.Intn(3)))))
		case 5:
			add(txStep(mkOp("set_space", p).withN("space", rng.Range(0, 1_000_000_000_000))))
		case 6:
			add(txStep(mkOp("add_claimer", p).withN("target", int64(g.sink))))
		}
	}
	// prover traffic
	for f := 0; f < g.nFiles; f++ {
		fi := w.fileInst(int64(f))
		if fi == nil {
			continue
		}
		for pi, post := range fi.Posts {
			cf, found := w.chainFile(fi.Merkle, w.accts[post.Owner].Bech, post.Start)
			if !found {
				continue
			}
			iv := cf.ProofInterval
			if iv <= 0 {
				continue
			}
			win := (h - post.Start) / iv
			off := (h - post.Start) % iv
			for _, p := range g.provers {
				key := [2]int{p, f}
				bh := g.behave[key]
				if bh == 0 {
					continue
				}
				if bh == 2 && b >= g.lazyAt[key] {
					continue
				}
				if bh == 3 {
					if rng.Intn(100) < 30 {
						add(txStep(g.badProof(rng, p, f, pi)))
					}
					continue
				}
				tk := [3]int64{int64(p), int64(f)*1000 + int64(pi), win}
				tgt, ok := g.target[tk]
				if !ok {
					switch rng.Intn(5) {
					case 0:
						tgt = 0
					case 1:
						tgt = iv - 1
					default:
						tgt = rng.Range(0, iv-1)
					}
					if win == 0 && h == post.Start+1 && tgt == 0 {
						tgt = 1 % iv
					}
					g.target[tk] = tgt
				}
				if off == tgt {
					add(txStep(mkOp("post_proof", p).withN("file", int64(f)).withN("post", int64(pi)).withS("mode", "honest")))
				}
			}
			// dishonest traffic against this posting
			if m.badProof > 0 && rng.Intn(1000) < m.badProof*4 {
				p := g.provers[rng.Intn(len(g.provers))]
				add(txStep(g.badProof(rng, p, f, pi)))
			}
			if m.newcomerBad > 0 && rng.Intn(1000) < m.newcomerBad*4 {
				// an account that is (most likely) not a prover of this file
				cands := append([]int{g.sink}, g.users...)
				cands = append(cands, g.provers...)
				p := cands[rng.Intn(len(cands))]
				add(txStep(g.badProof(rng, p, f, pi)))
			}
			if m.attest > 0 && rng.Intn(1000) < m.attest*5 {
				g.attestTraffic(w, rng, f, pi, &steps, false)
			}
			if m.report > 0 && rng.Intn(1000) < m.report*5 {
				g.attestTraffic(w, rng, f, pi, &steps, true)
			}
		}
	}
	blk.Steps = g.net.Apply(rng, b, len(w.nodes), steps)
	if (g.profile == "usage" || g.profile == "gauges") && len(w.nodes) == 1 && rng.Chance(1, 50) {
		blk.Reimport = true // restart of the whole chain from its own exported genesis (plans, files, gauges are exported)
	}
	return blk
}

// livePosts counts the postings of file f that still exist on chain.
func (g *genStorage) livePosts(w *World, f int) int {
	fi := w.fileInst(int64(f))
	if fi == nil {
		return 0
	}
	n := 0
	for _, p := range fi.Posts {
		if _, ok := w.chainFile(fi.Merkle, w.accts[p.Owner].Bech, p.Start); ok {
			n++
		}
	}
	return n
}

// providerHost draws a provider URL in one of the shapes operators really use: sub-domain of a
// shared domain, bare two-label domain (with and without port), dotted IPv4, single label.
func providerHost(rng *Rng, p, dom int) string {
	switch rng.Intn(9) {
	case 0, 1, 2, 3:
		if p%4 == 3 {
			// host names are case-insensitive to operators but not to the chain: a mixed-case
			// spelling of the shared domain (seeded change Y14-A)
			return fmt.Sprintf("https://Node%d.Dom%d.Example", p, dom)
		}
		return fmt.Sprintf("https://node%d.dom%d.example", p, dom)
	case 4:
		return fmt.Sprintf("https://prov%d.io", p)
	case 5:
		return fmt.Sprintf("https://dom%d.example:%d", dom, 3000+p)
	case 6:
		return fmt.Sprintf("http://10.0.%d.%d:3333", dom, p)
	case 7:
		return fmt.Sprintf("https://a.b.node%d.dom%d.example/path", p, dom)
	default:
		return fmt.Sprintf("http://host%d", p)
	}
}

func (g *genStorage) paramStep(rng *Rng) Step {
	n := map[string]int64{}
	switch rng.Intn(5) {
	case 4: // the reward-check interval itself moves: reward blocks must follow the configured value on every node
		n["check_window"] = rng.Range(2, 15)
	case 0:
		n["collateralPrice"] = rng.Pick64(2, 5, 1000)
	case 1:
		n["attestMinToPass"] = rng.Range(0, 3)
	case 2:
		n["proof_window"] = rng.Range(2, 12)
	case 3:
		n["price_per_tb_per_month"] = rng.Pick64(1, 8, 15, 100)
	}
	st := Step{Kind: "param", S: map[string]string{"module": "storage"}, N: n}
	if rng.Chance(1, 2) {
		st.S["via"] = "gov" // a real proposal + vote instead of a direct keeper write
	}
	return st
}

func (g *genStorage) buyOp(rng *Rng, u int) Op {
	gb := int64(1_000_000_000)
	bytes := rng.Pick64(1, 2, 3, 10, 100, 1000, 4999, 5000, 20000, 50000) * gb
	if rng.Chance(1, 6) {
		bytes += rng.Range(1, gb-1)
	}
	days := rng.Pick64(30, 30, 31, 60, 90, 180, 364, 365, 366, 730, 1095)
	op := mkOp("buy_storage", u).withN("days", days).withN("bytes", bytes)
	if rng.Chance(1, 5) {
		op = op.withN("for", int64(g.users[rng.Intn(len(g.users))]))
	}
	switch rng.Intn(6) {
	case 0:
		op = op.withN("ref", int64(u)) // self referral
	case 1:
		op = op.withN("ref", int64(g.sink))
	case 2:
		op = op.withS("refstr", "not-an-address")
	}
	return op
}

func (g *genStorage) postOp(rng *Rng, u, f int, payOnce bool) Op {
	mx := rng.Pick64(1, 1, 2, 3, 3, 4, 5)
	if g.profile == "rewards" || g.profile == "attest" {
		mx = rng.Pick64(2, 3, 4, 5, 6)
	}
	op := mkOp("post_file", u).withN("file", int64(f)).withN("max", mx)
	if g.profile == "usage" || (g.profile == "mixed" && rng.Chance(1, 4)) {
		// declared size (the chain cannot check it): from bytes to more than any plan
		op = op.withN("size", rng.Pick64(1, 1000, 1_000_000, 400_000_000, 999_999_999, 1_000_000_000, 3_000_000_000, 40_000_000_000, 1_000_000_000_000, 60_000_000_000_000,
			math.MaxInt64, math.MaxInt64/2+1, math.MaxInt64/3, math.MaxInt64-999_999_999, 1<<62, 1<<61+5, 1<<63/5+1))
		op = op.withN("max", rng.Pick64(1, 2, 3, 4, 5, 8, 16))
	}
	if payOnce {
		// expiry in blocks: around a day (14400 blocks) and longer
		op = op.withN("expires_in", rng.Pick64(14399, 14400, 14401, 20000, 100_000, 5_000_000))
	}
	if rng.Chance(1, 25) {
		op = op.withS("note", `{"k":"v"}`)
	}
	return op
}

func (g *genStorage) badProof(rng *Rng, p, f, pi int) Op {
	mode := proofModes[1+rng.Intn(len(proofModes)-1)]
	op := mkOp("post_proof", p).withN("file", int64(f)).withN("post", int64(pi)).withS("mode", mode).withN("salt", rng.Range(0, 1000))
	if mode == "otherfile" {
		op = op.withN("other", int64((f+1+rng.Intn(maxInt(1, g.nFiles-1)))%g.nFiles))
	}
	return op
}

func maxInt(a, b int) int {
	if a > b {
		return a
	}
	return b
}

// attestTraffic emits form requests and signatures by named, unnamed and repeated signers.
func (g *genStorage) attestTraffic(w *World, rng *Rng, f, pi int, steps *[]Step, report bool) {
	add := func(st Step) { *steps = append(*steps, st) }
	fi := w.files[f]
	post := fi.Posts[pi]
	owner := w.accts[post.Owner].Bech
	prover := g.provers[rng.Intn(len(g.provers))]
	pb := w.accts[prover].Bech
	k := w.node().app.StorageKeeper
	ctx := w.Ctx()
	var named []string
	exists := false
	if report {
		if form, ok := k.GetReportForm(ctx, pb, fi.Merkle, owner, post.Start); ok {
			exists = true
			for _, a := range form.Attestations {
				named = append(named, a.Provider)
			}
		}
	} else {
		if form, ok := k.GetAttestationForm(ctx, pb, fi.Merkle, owner, post.Start); ok {
			exists = true
			for _, a := range form.Attestations {
				named = append(named, a.Provider)
			}
		}
	}
	base := func(kind string, a int) Op {
		return mkOp(kind, a).withN("file", int64(f)).withN("post", int64(pi)).withN("prover", int64(prover))
	}
	if rng.Chance(1, 12) {
		// one transaction: a prover (maybe new to the file) proves, requests a form, and a final
		// message fails, so all of it is rolled back
		kindReq := mkOp("req_attest", prover).withN("file", int64(f)).withN("post", int64(pi))
		if report {
			kindReq = base("req_report", prover)
		}
		st := txStep(mkOp("post_proof", prover).withN("file", int64(f)).withN("post", int64(pi)).withS("mode", "honest"), kindReq,
			mkOp("bank_send", prover).withN("to", 0).withN("amt", 9_000_000_000_000_000_000))
		st.Fault = "multi_msg"
		*steps = append(*steps, st)
	}
	if !exists || rng.Chance(1, 6) {
		if report {
			req := g.provers[rng.Intn(len(g.provers))]
			if rng.Chance(1, 4) {
				req = g.users[rng.Intn(len(g.users))]
			}
			add(txStep(base("req_report", req)))
		} else {
			req := prover
			if rng.Chance(1, 6) {
				req = g.provers[rng.Intn(len(g.provers))]
			}
			add(txStep(mkOp("req_attest", req).withN("file", int64(f)).withN("post", int64(pi))))
		}
		if !exists && rng.Chance(2, 3) {
			// signature on a form that (probably) does not exist yet in this block order
			if rng.Chance(1, 3) {
				kind := "attest"
				if report {
					kind = "report"
				}
				add(txStep(base(kind, g.provers[rng.Intn(len(g.provers))])))
			}
			return
		}
	}
	kind := "attest"
	if report {
		kind = "report"
	}
	nSig := 1 + rng.Intn(3)
	for i := 0; i < nSig; i++ {
		var signer int
		switch v := rng.Intn(10); {
		case v < 6 && len(named) > 0:
			nb := named[rng.Intn(len(named))]
			signer = -1
			for _, a := range w.accts {
				if a.Bech == nb {
					signer = a.Idx
				}
			}
			if signer < 0 {
				signer = g.sink
			}
		case v < 8:
			signer = g.provers[rng.Intn(len(g.provers))]
		case v < 9:
			signer = prover
		default:
			signer = g.users[rng.Intn(len(g.users))]
		}
		add(txStep(base(kind, signer)))
	}
}

func init() {
	_ = fmt.Sprint
}
