package main

import (
	sdk "github.com/cosmos/cosmos-sdk/types"
	abci "github.com/tendermint/tendermint/abci/types"

	storagetypes "github.com/jackalLabs/canine-chain/v4/x/storage/types"
)

// ---------------- C01: no prover status or reward without a valid proof ----------------

type oracleC01 struct {
	NopOracle
	preForms  c14Snap
	probeFlip bool
	pre      storSnap
	preBal   Bal
	proved   map[string]bool // pkey -> the account validly proved (joined) this file at least once
	rejected int             // rejected submissions so far (probe: followed by a reward block)
}

func (o *oracleC01) Start(w *World) { o.proved = map[string]bool{} }

func (o *oracleC01) BeforeStep(w *World, st *Step, msgs []sdk.Msg) {
	o.pre = readStor(w)
	o.preForms = readForms(w)
	if len(msgs) == 1 {
		if pp, ok := msgs[0].(*storagetypes.MsgPostProof); ok {
			o.selfChosenProbe(w, pp)
		}
	}
}

// selfChosenProbe is a counterfactual branch: for a first submission by a non-member it runs the
// real handler on two discarded copies of the state with honest proofs of two *different* chunk
// indices, each claiming its own index. If both are accepted the submitter, not the chain,
// chooses which chunk is proven.
func (o *oracleC01) selfChosenProbe(w *World, pp *storagetypes.MsgPostProof) {
	v := judgeProof(&o.pre, pp)
	if !v.fileFound || v.listed || !v.room {
		return
	}
	var fi *FileInst
	for _, f := range w.files {
		if f.Merkle != nil && string(f.Merkle) == string(pp.Merkle) && int64(len(f.Data)) == v.f.FileSize {
			fi = f
		}
	}
	if fi == nil || len(fi.Chunks) < 2 {
		return
	}
	a, b := int64(0), int64(len(fi.Chunks)-1)
	if len(fi.Chunks) > 2 && o.probeFlip {
		a = 1
	}
	o.probeFlip = !o.probeFlip
	accepted := 0
	for _, idx := range []int64{a, b} {
		item, hl, ok := honestProof(fi, idx)
		if !ok {
			return
		}
		m := &storagetypes.MsgPostProof{Creator: pp.Creator, Item: item, HashList: hl, Merkle: pp.Merkle, Owner: pp.Owner, Start: pp.Start, ToProve: idx}
		h := w.node().app.MsgServiceRouter().Handler(m)
		if h == nil {
			return
		}
		cctx, _ := w.Ctx().CacheContext()
		func() {
			defer func() { _ = recover() }()
			res, err := h(cctx, m)
			if err != nil || res == nil {
				return
			}
			var r storagetypes.MsgPostProofResponse
			if r.Unmarshal(res.Data) == nil && r.Success {
				accepted++
			}
		}()
	}
	w.Probe("self_chosen_challenge_probe")
	if accepted == 2 {
		w.Violate("C01:accepted-invalid:self-chosen-challenge", "a non-member's first PostProof on %x is accepted for chunk %d and equally for chunk %d: the submitter chooses which chunk it proves, the chain challenges nothing", pp.Merkle, a, b)
	}
}

// proofVerdict is the reference decision for a PostProof message on a pre-state.
type proofVerdict struct {
	fileFound bool
	listed    bool
	room      bool
	// validStrict: an honest client following the protocol (newcomers answer chunk 0) would be accepted
	validStrict bool
	// validLoose: the payload is a Merkle proof of the chunk the chain challenged (for a
	// newcomer: of the chunk index it claims)
	validLoose bool
	f          storagetypes.UnifiedFile
}

func judgeProof(pre *storSnap, m *storagetypes.MsgPostProof) proofVerdict {
	var v proofVerdict
	f, ok := pre.files[fkey(m.Merkle, m.Owner, m.Start)]
	if !ok {
		return v
	}
	v.fileFound, v.f = true, f
	v.listed = f.ContainsProver(m.Creator)
	v.room = int64(len(f.Proofs)) < f.MaxProofs
	if !v.listed && !v.room {
		return v
	}
	if v.listed {
		rec, ok := pre.proofs[pkey(m.Creator, m.Merkle, m.Owner, m.Start)]
		if !ok {
			return v
		}
		ok2 := m.ToProve == rec.ChunkToProve && modelVerify(f.Merkle, rec.ChunkToProve, m.Item, m.HashList)
		v.validStrict, v.validLoose = ok2, ok2
		return v
	}
	v.validLoose = modelVerify(f.Merkle, m.ToProve, m.Item, m.HashList)
	v.validStrict = m.ToProve == 0 && v.validLoose
	return v
}

func stepMode(st *Step) string {
	if len(st.Ops) > 0 {
		if m := st.Ops[0].S["mode"]; m != "" {
			return m
		}
		if st.Ops[0].K == "post_proof" {
			return "honest"
		}
	}
	return "unknown"
}

func (o *oracleC01) AfterStep(w *World, st *Step, msgs []sdk.Msg, res *abci.ResponseDeliverTx) {
	post := readStor(w)
	cands := w.allBech()
	// the first message of the transaction is judged in full against the pre-state; further
	// PostProof messages of a multi-message transaction are only attributed (their pre-state is
	// inside the transaction and not observable)
	var pp *storagetypes.MsgPostProof
	pp, _ = msgs[0].(*storagetypes.MsgPostProof)
	alsoAccepted := map[string]bool{} // creator|fkey of later accepted PostProofs in this tx
	if res.Code == 0 {
		for i := 1; i < len(msgs); i++ {
			if m, ok := msgs[i].(*storagetypes.MsgPostProof); ok {
				var r storagetypes.MsgPostProofResponse
				if decodeResp(res.Data, i, &r) && r.Success {
					alsoAccepted[m.Creator+"|"+fkey(m.Merkle, m.Owner, m.Start)] = true
					o.proved[pkey(m.Creator, m.Merkle, m.Owner, m.Start)] = true
				}
			}
		}
	}
	success := false
	if pp != nil {
		v := judgeProof(&o.pre, pp)
		if res.Code == 0 {
			var r storagetypes.MsgPostProofResponse
			if decodeResp(res.Data, 0, &r) {
				success = r.Success
			}
		}
		mode := stepMode(st)
		role := "newcomer"
		if v.listed {
			role = "member"
		}
		w.Probe("proof_judged:" + mode)
		if success && !v.validLoose {
			why := mode
			if !v.fileFound {
				why = "unknown-file"
			} else if !v.listed && !v.room {
				why = "full-file"
			}
			w.Violate("C01:accepted-invalid:"+why, "PostProof by %s (%s) on %x answered Success although the payload is not a proof of the challenged chunk", pp.Creator, role, pp.Merkle)
		}
		if success {
			o.proved[pkey(pp.Creator, pp.Merkle, pp.Owner, pp.Start)] = true
			w.Probe("proof_accepted")
			w.NonTrivial()
		} else {
			o.rejected++
			w.Probe("proof_rejected:" + role)
			// nothing about the sender may change
			k := fkey(pp.Merkle, pp.Owner, pp.Start)
			pf, pok := o.pre.files[k]
			qf, qok := post.files[k]
			if pok && qok {
				if pf.ContainsProver(pp.Creator) != qf.ContainsProver(pp.Creator) {
					w.Violate("C01:state-change-on-reject:listed:"+role, "rejected PostProof (%s) by %s changed its membership on %s: %v -> %v", mode, pp.Creator, k, pf.ContainsProver(pp.Creator), qf.ContainsProver(pp.Creator))
				}
			}
			pr, prok := o.pre.proofs[pkey(pp.Creator, pp.Merkle, pp.Owner, pp.Start)]
			qr, qrok := post.proofs[pkey(pp.Creator, pp.Merkle, pp.Owner, pp.Start)]
			if prok != qrok || (prok && (pr.LastProven != qr.LastProven || pr.ChunkToProve != qr.ChunkToProve)) {
				w.Violate("C01:state-change-on-reject:proof-record:"+role, "rejected PostProof (%s) by %s changed its proof record on %s: %v/%v -> %v/%v", mode, pp.Creator, k, prok, pr, qrok, qr)
			}
		}
	}
	// staying credited through attestation needs a completed quorum of distinct named providers
	if len(msgs) == 1 {
		if at, ok := msgs[0].(*storagetypes.MsgAttest); ok {
			key := pkey(at.Prover, at.Merkle, at.Owner, at.Start)
			pr, had := o.pre.proofs[key]
			qr, has := post.proofs[key]
			if had && has && qr.LastProven != pr.LastProven {
				form, exists := o.preForms.attest[key]
				cnt := int64(0)
				if exists {
					cnt = int64(len(form.signed))
					if contains(form.named, at.Creator) && !form.signed[at.Creator] {
						cnt++
					}
				}
				w.Probe("attest_refresh")
				if !exists || !contains(form.named, at.Creator) || cnt < o.preForms.minPass {
					w.Violate("C01:credited-by-incomplete-quorum", "the proof deadline of %s was refreshed by an attestation with %d distinct named signatures (minimum %d, form exists %v)", at.Prover, cnt, o.preForms.minPass, exists)
				}
			}
		}
	}
	// membership changes must have a cause
	for k, qf := range post.files {
		pf, existed := o.pre.files[k]
		before := map[string]bool{}
		if existed {
			before = listedOn(&pf, cands)
		}
		after := listedOn(&qf, cands)
		for a := range after {
			if before[a] {
				continue
			}
			if pp != nil && success && a == pp.Creator && k == fkey(pp.Merkle, pp.Owner, pp.Start) {
				continue
			}
			if alsoAccepted[a+"|"+k] {
				continue
			}
			w.Violate("C01:membership-change-without-cause", "%s became listed on %s in a step (%s) that is not its own accepted proof", a, k, shortKind(msgs))
		}
		if len(qf.Proofs) > len(after) {
			// a listed key that belongs to none of the known accounts
			w.Violate("C01:membership-change-without-cause", "file %s lists %d provers but only %d known accounts", k, len(qf.Proofs), len(after))
		}
	}
}

func (o *oracleC01) BeforeBegin(w *World) {
	if isRewardHeight(w, w.height) {
		o.pre = readStor(w)
		o.preBal = w.Balances()
	} else {
		o.preBal = nil
	}
}

// excluded from "paid at a reward block": accounts credited by minting/distribution.
func (o *oracleC01) mintRecipients(w *World) map[string]bool {
	initAddrs()
	mp := w.node().app.MintKeeper.GetParams(w.Ctx())
	ex := map[string]bool{addrFeeCollector: true, addrDistr: true, addrStorage: true, mp.StorageStipendAddress: true,
		moduleAddr("jklmint"): true, moduleAddr("bonded_tokens_pool"): true, moduleAddr("not_bonded_tokens_pool"): true}
	if dg, err := devGrantsAddr(); err == nil {
		ex[dg] = true
	}
	return ex
}

func (o *oracleC01) AfterBegin(w *World, _ *abci.ResponseBeginBlock) {
	if o.preBal == nil {
		return
	}
	post := w.Balances()
	ex := o.mintRecipients(w)
	anyPaid := false
	for a, d := range o.preBal.Delta(post, denom) {
		if !d.IsPositive() || ex[a] {
			continue
		}
		anyPaid = true
		// the account must be listed (before the block) on a file it validly proved
		ok := false
		for k, f := range o.pre.files {
			if f.ContainsProver(a) && o.proved[a+"|"+k] {
				ok = true
				break
			}
		}
		if !ok {
			w.Violate("C01:paid-never-proved", "account %s received %s%s at reward block %d without ever having had a valid proof accepted for a file it is listed on", a, d, denom, w.height)
		}
	}
	if anyPaid {
		w.Probe("reward_block_paid")
		if o.rejected > 0 {
			w.Probe("reject_then_reward_block")
		}
	}
}

func init() {
	register(&Property{
		ID:        "C01",
		NewGen:    func() Generator { return &genStorage{profile: "proofs"} },
		NewOracle: func() Oracle { return &oracleC01{} },
		Runs:      map[string]int{"quick": 500, "thorough": 12000},
		Required:  []string{"proof_accepted", "proof_rejected:newcomer", "proof_rejected:member", "reject_then_reward_block", "self_chosen_challenge_probe", "attest_refresh"},
		Rule: "online-generated storage histories (1-4 files of boundary sizes, chunk size in {1,7,64,1024}, proof/check windows 2..15, 2-6 provers diligent/lazy/cheating, 12 malformed/stale payload kinds by members, newcomers and outsiders, swarm network faults); " +
			"non-trivial = at least one PostProof was accepted and judged; distinct = distinct (message kind, outcome) sequences",
	})
}
