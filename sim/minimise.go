package main

import (
	"encoding/json"
	"fmt"
	"os"
	"time"
)

func loadSchedule(path string) (*Schedule, error) {
	bz, err := os.ReadFile(path)
	if err != nil {
		return nil, err
	}
	var s Schedule
	if err := json.Unmarshal(bz, &s); err != nil {
		return nil, err
	}
	return &s, nil
}

func cloneSchedule(s *Schedule) *Schedule {
	var c Schedule
	if err := json.Unmarshal([]byte(mustJSON(s)), &c); err != nil {
		panic(err)
	}
	return &c
}

func firstOfClass(r *RunResult, class string) *Violation {
	for i := range r.Violations {
		if r.Violations[i].Class == class {
			return &r.Violations[i]
		}
	}
	return nil
}

type stepRef struct{ b, i int }

func withoutSteps(s *Schedule, drop map[stepRef]bool) *Schedule {
	c := cloneSchedule(s)
	for bi := range c.Blocks {
		var keep []Step
		for si, st := range c.Blocks[bi].Steps {
			if !drop[stepRef{bi, si}] {
				keep = append(keep, st)
			}
		}
		c.Blocks[bi].Steps = keep
	}
	return c
}

// cmdMinimise shrinks a failing schedule while the same violation class persists.
func cmdMinimise(in, out, class string) int {
	quietStdout()
	defer cleanupScratch()
	s, err := loadSchedule(in)
	if err != nil {
		fmt.Fprintln(os.Stderr, "minimise:", err)
		return 2
	}
	p := registry[s.Property]
	if p == nil {
		return 2
	}
	deadline := time.Now().Add(time.Duration(envInt("VERIF_MIN_S", 120)) * time.Second)
	budget := envInt("VERIF_MIN_CANDIDATES", 300)
	tries := 0
	// C06 violations caused by Go map iteration order are probabilistic per execution: a candidate
	// counts as failing when any of a few repeated executions shows the class.
	repeats := 1
	if s.Property == "C06" {
		repeats = 4
	}
	fails := func(c *Schedule) *Violation {
		tries++
		for i := 0; i < repeats; i++ {
			r := execSchedule(p, c)
			if r.Err != "" {
				return nil
			}
			if v := firstOfClass(r, class); v != nil {
				return v
			}
		}
		return nil
	}
	v := fails(s)
	if v == nil {
		fmt.Fprintf(os.Stderr, "minimise: input does not reproduce class %s\n", class)
		return 3
	}
	cur := s
	more := func() bool { return tries < budget && time.Now().Before(deadline) }
	// 1. truncate after the violating block
	if v.Block+1 < len(cur.Blocks) {
		c := cloneSchedule(cur)
		c.Blocks = c.Blocks[:v.Block+1]
		if nv := fails(c); nv != nil {
			cur, v = c, nv
		}
	}
	// 2. drop fault-only steps (crash, param, dropped)
	{
		drop := map[stepRef]bool{}
		for bi, b := range cur.Blocks {
			for si, st := range b.Steps {
				if st.Kind == "crash" || st.Kind == "crash_end" || st.Kind == "dropped" {
					drop[stepRef{bi, si}] = true
				}
			}
		}
		if len(drop) > 0 && more() {
			c := withoutSteps(cur, drop)
			if nv := fails(c); nv != nil {
				cur, v = c, nv
			}
		}
	}
	// 3. ddmin over steps
	for more() {
		var refs []stepRef
		for bi, b := range cur.Blocks {
			for si := range b.Steps {
				refs = append(refs, stepRef{bi, si})
			}
		}
		if len(refs) <= 1 {
			break
		}
		progress := false
		for n := 2; n <= len(refs) && more(); {
			sz := (len(refs) + n - 1) / n
			reduced := false
			for start := 0; start < len(refs) && more(); start += sz {
				end := start + sz
				if end > len(refs) {
					end = len(refs)
				}
				drop := map[stepRef]bool{}
				for _, r := range refs[start:end] {
					drop[r] = true
				}
				c := withoutSteps(cur, drop)
				if nv := fails(c); nv != nil {
					cur, v = c, nv
					reduced, progress = true, true
					break
				}
			}
			if reduced {
				break
			}
			if sz == 1 {
				break
			}
			n *= 2
			if n > len(refs) {
				n = len(refs)
			}
		}
		if !progress {
			break
		}
	}
	// 4. drop empty leading/inner blocks one at a time (heights shift; class must persist)
	for bi := 0; bi < len(cur.Blocks) && more(); {
		if len(cur.Blocks[bi].Steps) != 0 || len(cur.Blocks) <= 1 {
			bi++
			continue
		}
		c := cloneSchedule(cur)
		c.Blocks = append(c.Blocks[:bi], c.Blocks[bi+1:]...)
		if nv := fails(c); nv != nil {
			cur, v = c, nv
		} else {
			bi++
		}
	}
	// 5. simplify time deltas
	for bi := range cur.Blocks {
		if !more() {
			break
		}
		if cur.Blocks[bi].DtNs == 6*sec {
			continue
		}
		c := cloneSchedule(cur)
		c.Blocks[bi].DtNs = 6 * sec
		if nv := fails(c); nv != nil {
			cur, v = c, nv
		}
	}
	// final: execute once more to record expect + trace
	final := cloneSchedule(cur)
	var fv *Violation
	for i := 0; i < repeats*2 && fv == nil; i++ {
		final = cloneSchedule(cur)
		r := runSchedule(final, nil, p.NewOracle(), nil)
		fv = firstOfClass(r, class)
	}
	if fv == nil {
		fmt.Fprintln(os.Stderr, "minimise: final schedule lost the violation")
		return 3
	}
	final.Expect = &Expect{Class: fv.Class, Block: fv.Block, Step: fv.Step, Detail: fv.Detail}
	bz, _ := json.MarshalIndent(final, "", " ")
	if err := os.WriteFile(out, bz, 0o644); err != nil {
		return 2
	}
	fmt.Fprintf(os.Stderr, "minimise: %d candidates, %d -> %d steps, %d -> %d blocks\n", tries, s.countSteps(), final.countSteps(), len(s.Blocks), len(final.Blocks))
	return 0
}

// cmdReplay executes a replay file literally. Exit 1 + VIOLATION when the
// recorded violation reproduces with identical trace; 3 when it does not; 0 when
// the file has no expectation and nothing is violated.
func cmdReplay(path string, verbose bool) int {
	quietStdout()
	defer cleanupScratch()
	s, err := loadSchedule(path)
	if err != nil {
		fmt.Fprintln(os.Stderr, "replay:", err)
		return 2
	}
	p := registry[s.Property]
	if p == nil {
		return 2
	}
	wantTrace := s.Trace
	c := cloneSchedule(s)
	r := runSchedule(c, nil, p.NewOracle(), nil)
	if s.Property == "C06" && s.Expect != nil {
		// divergence through map iteration order shows with probability < 1 per execution
		for i := 0; i < 7 && firstOfClass(r, s.Expect.Class) == nil && r.Err == ""; i++ {
			c = cloneSchedule(s)
			r = runSchedule(c, nil, p.NewOracle(), nil)
		}
	}
	out := realStdout
	if r.Err != "" {
		fmt.Fprintln(out, "replay: machinery error:", r.Err)
		return 2
	}
	if verbose {
		for _, v := range r.Violations {
			fmt.Fprintf(out, "  violation %s at block %d step %d height %d: %s\n", v.Class, v.Block, v.Step, v.Height, v.Detail)
		}
		for k, v := range r.Probes {
			fmt.Fprintf(out, "  probe %s=%d\n", k, v)
		}
	}
	if s.Expect == nil {
		if len(r.Violations) == 0 {
			fmt.Fprintln(out, "replay: no violation")
			return 0
		}
		v := r.Violations[0]
		fmt.Fprintf(out, "VIOLATION property=%s replay=%s\n  class=%s block=%d step=%d: %s\n", s.Property, path, v.Class, v.Block, v.Step, v.Detail)
		return 1
	}
	v := firstOfClass(r, s.Expect.Class)
	if v == nil || ((v.Block != s.Expect.Block || v.Step != s.Expect.Step) && s.Property != "C06" && s.Expect.Block >= 0) {
		fmt.Fprintf(out, "replay: NOT REPRODUCED (expected %s at block %d step %d)\n", s.Expect.Class, s.Expect.Block, s.Expect.Step)
		return 3
	}
	if len(wantTrace) > 0 {
		same := len(wantTrace) == len(c.Trace)
		for i := 0; same && i < len(wantTrace); i++ {
			same = wantTrace[i] == c.Trace[i]
		}
		if !same && s.Property != "C06" {
			fmt.Fprintf(out, "replay: violation reproduced but the block trace differs from the recorded one (nondeterminism)\n")
			return 3
		}
	}
	fmt.Fprintf(out, "VIOLATION property=%s replay=%s\n  class=%s block=%d step=%d height=%d: %s\n", s.Property, path, v.Class, v.Block, v.Step, v.Height, v.Detail)
	return 1
}
