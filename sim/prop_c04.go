package main

import (
	"fmt"
	"time"

	sdk "github.com/cosmos/cosmos-sdk/types"
	abci "github.com/tendermint/tendermint/abci/types"

	storagetypes "github.com/jackalLabs/canine-chain/v4/x/storage/types"
)

// ---------------- C04: storage payments charged exactly and split without misdirection ----------------

type genC04 struct {
	net    *Net
	nb     int
	users  []int
	refs   []int
	sink   int
	names  []string
}

func (g *genC04) Config(rng *Rng, tier string) Config {
	c := baseConfig(rng)
	c.NAccts = 9
	g.users = []int{1, 2, 3, 4}
	g.refs = []int{5, 6}
	g.sink = 7
	c.Mint.StorageStipendAddress = makeAcct(8).Bech
	pol := rng.Pick64(0, 5, 10, 20, 40, 40, 60, 100)
	ref := rng.Pick64(0, 10, 25, 25, 40, 60, 100)
	if pol+ref > 100 {
		ref = 100 - pol
	}
	c.Storage.PolRatio, c.Storage.ReferralCommission = pol, ref
	c.Storage.PricePerTbPerMonth = rng.Pick64(1, 8, 8, 15, 100)
	c.Storage.CheckWindow = rng.Range(2, 15)
	c.Storage.ProofWindow = rng.Range(2, 12)
	if rng.Chance(1, 2) {
		c.SeedFeed = rng.PickS("0.20", "0.000001", "1", "10000", "0.05", "3.333333")
	}
	c.Files = []FileSpec{{Size: 100, DataSeed: rng.U64()}, {Size: 2000, DataSeed: rng.U64()}}
	c.InvCheckPeriod = uint(rng.Pick64(0, 0, 1))
	// some users are poor so purchases fail for lack of funds
	if rng.Chance(1, 3) {
		c.PoorAccts = []int{1 + rng.Intn(4)}
		c.PoorBalance = rng.Pick64(0, 1, 1000, 10_000_000)
	}
	g.net = newNet(rng, []string{"tx_dup", "tx_delay", "tx_reorder", "out_of_gas", "crash_restart", "multi_msg"}, 5)
	g.nb = 25 + rng.Intn(30)
	if tier == "thorough" {
		g.nb = 30 + rng.Intn(70)
	}
	g.names = []string{"ref.jkl", "r.jkl", "refer.ibc"}
	return c
}

func (g *genC04) NBlocks() int { return g.nb }

func (g *genC04) Block(w *World, b int) Block {
	rng := w.rng
	blk := Block{DtNs: pickDt(rng, true)}
	var steps []Step
	add := func(st Step) { steps = append(steps, st) }
	if b == 0 {
		for i, n := range g.names {
			owner := g.refs[i%len(g.refs)]
			if i == 2 {
				owner = g.users[0] // a name that resolves to a buyer: self-referral through a name
			}
			if rng.Chance(4, 5) {
				add(txStep(mkOp("rns_register", owner).withS("name", n).withN("years", 1)))
			}
		}
	}
	if rng.Chance(1, 9) {
		pol := rng.Pick64(0, 5, 10, 20, 40, 60, 100)
		ref := rng.Range(0, 100-pol)
		ps := Step{Kind: "param", S: map[string]string{"module": "storage"}, N: map[string]int64{"pol_ratio": pol, "referral_commission": ref}}
		if rng.Chance(1, 2) {
			ps.S["via"] = "gov"
		}
		steps = append(steps, ps)
	}
	k := rng.Intn(4)
	for i := 0; i < k; i++ {
		u := g.users[rng.Intn(len(g.users))]
		switch rng.Weighted([]int{60, 14, 6, 5, 5, 6}) {
		case 0:
			add(txStep(g.buy(rng, u)))
		case 1:
			op := mkOp("post_file", u).withN("file", int64(rng.Intn(2))).withN("max", rng.Pick64(1, 3, 5)).
				withN("expires_in", rng.Pick64(14399, 14400, 14401, 20000, 100_000, 5_000_000)).
				withN("size", rng.Pick64(1, 1000, 341_000, 342_000, 1_024_000, 5_000_000, 1_000_000_000, 1_000_000_000_000))
			add(txStep(op))
		case 2:
			add(txStep(mkOp("post_file", u).withN("file", int64(rng.Intn(2))).withN("max", 3)))
		case 3:
			st := txStep(mkOp("drain", u).withN("to", int64(g.sink)).withN("leave", rng.Pick64(0, 1, 1000, 5_000_000)))
			st.Fault = "no_funds"
			add(st)
		case 4: // multi-message transaction, second message fails or succeeds
			second := g.buy(rng, u)
			if rng.Chance(1, 2) {
				second.N["days"] = 1
			}
			st := txStep(g.buy(rng, u), second)
			st.Fault = "multi_msg"
			add(st)
		case 5:
			add(txStep(mkOp("bank_send", g.sink).withN("to", int64(u)).withN("amt", rng.Pick64(1000, 1_000_000_000, 1_000_000_000_000))))
		}
	}
	if rng.Chance(1, 7) {
		// equal purchases by different buyers in one block (same gauge identity)
		op := g.buy(rng, g.users[0])
		delete(op.N, "ref")
		delete(op.N, "for")
		delete(op.S, "refstr")
		if op.N["days"] < 30 {
			op.N["days"] = 30
		}
		n := 2 + rng.Intn(2)
		for i := 0; i < n; i++ {
			o2 := mkOp("buy_storage", g.users[i])
			for k, v := range op.N {
				o2.N[k] = v
			}
			add(txStep(o2))
		}
	}
	for i := range steps {
		if steps[i].Kind == "tx" && rng.Chance(1, 20) {
			if steps[i].N == nil {
				steps[i].N = map[string]int64{}
			}
			steps[i].N["upper"] = 1 // the same account, spelled in upper case
		}
	}
	blk.Steps = g.net.Apply(rng, b, len(w.nodes), steps)
	if len(w.nodes) == 1 && rng.Chance(1, 50) {
		blk.Reimport = true // restart of the whole chain from its own exported genesis (plans, names, balances carry over)
	}
	return blk
}

func (g *genC04) buy(rng *Rng, u int) Op {
	gb := int64(1_000_000_000)
	bytes := rng.Pick64(1, 2, 3, 10, 100, 1000, 4999, 5000, 19999, 20000, 50000) * gb
	if rng.Chance(1, 8) {
		bytes = rng.Pick64(0, 1, gb-1, gb+1)
	}
	days := rng.Pick64(1, 29, 30, 30, 31, 60, 90, 180, 364, 365, 366, 730, 1095)
	op := mkOp("buy_storage", u).withN("days", days).withN("bytes", bytes)
	if rng.Chance(1, 4) {
		op = op.withN("for", int64(g.users[rng.Intn(len(g.users))]))
	}
	switch rng.Intn(9) {
	case 0:
		op = op.withN("ref", int64(u))
	case 1, 2:
		op = op.withN("ref", int64(g.refs[rng.Intn(len(g.refs))]))
	case 3, 4:
		op = op.withS("refstr", g.names[rng.Intn(len(g.names))])
	case 5:
		op = op.withS("refstr", rng.PickS("nobody.jkl", "not-an-address", "jkl1invalid", "x"))
	}
	if rng.Chance(1, 20) {
		op = op.withS("denom", denom2)
	}
	return op
}

type c04Exp struct {
	known    bool
	price    sdk.Int
	referred bool
	refAddr  string
	discount int64 // percent
	kind     string
}

type oracleC04 struct {
	NopOracle
	pre     Bal
	preSup  sdk.Int
	preSup2 sdk.Int
	preG    gaugeSnap
	exp     c04Exp
	params  storagetypes.Params
}

func (o *oracleC04) BeforeStep(w *World, st *Step, msgs []sdk.Msg) {
	o.pre = w.Balances()
	o.preSup, o.preSup2 = w.Supply(denom), w.Supply(denom2)
	o.preG = readGauges(w)
	o.exp = c04Exp{}
	o.params = w.storageParams()
	if len(msgs) != 1 {
		return
	}
	ctx := w.Ctx()
	k := w.node().app.StorageKeeper
	switch m := msgs[0].(type) {
	case *storagetypes.MsgBuyStorage:
		// the price the chain computes, from its own exported pricing functions on the pre-state
		func() {
			defer func() { _ = recover() }()
			duration := time.Duration(m.DurationDays) * 24 * time.Hour
			hours := int64(duration / time.Hour)
			gbs := m.Bytes / 1_000_000_000
			cost := k.GetStorageCost(ctx, gbs, hours)
			kind := "new"
			if pi, found := k.GetStoragePaymentInfo(ctx, m.ForAddress); found {
				kind = "renew"
				if pi.End.After(ctx.BlockTime()) {
					kind = "upgrade"
					c, err := k.UpgradeStorage(ctx, m.Bytes, pi, duration, cost, m.PaymentDenom)
					if err != nil {
						return
					}
					cost = c.Amount
				}
			}
			e := c04Exp{known: true, price: cost, kind: kind}
			if ra, err := w.node().app.RnsKeeper.Resolve(ctx, m.Referral); err == nil && ra.String() != canonAddr(m.Creator) {
				e.referred, e.refAddr = true, ra.String()
				e.discount = 10
				if duration > 365*24*time.Hour {
					e.discount = 5
				}
				e.price = cost.MulRaw(100 - e.discount).QuoRaw(100)
				e.kind += ":referred"
			}
			o.exp = e
		}()
	case *storagetypes.MsgPostFile:
		if m.Expires > 0 {
			func() {
				defer func() { _ = recover() }()
				kbs := m.FileSize * m.MaxProofs / 1000
				if kbs < 1024 {
					kbs = 1024
				}
				hours := (m.Expires - w.height) * 6 / 60 / 60
				o.exp = c04Exp{known: true, price: k.GetStorageCostKbs(ctx, kbs, hours), kind: "payonce"}
			}()
		}
	}
}

func within1(a, b sdk.Int) bool { return a.Sub(b).Abs().LTE(sdk.OneInt()) }

func (o *oracleC04) AfterStep(w *World, st *Step, msgs []sdk.Msg, res *abci.ResponseDeliverTx) {
	initAddrs()
	post := w.Balances()
	isPay := false
	for _, m := range msgs {
		switch mm := m.(type) {
		case *storagetypes.MsgBuyStorage:
			isPay = true
		case *storagetypes.MsgPostFile:
			if mm.Expires > 0 {
				isPay = true
			}
		}
	}
	if !isPay {
		return
	}
	kind := shortKind(msgs)
	if !w.Supply(denom).Equal(o.preSup) || !w.Supply(denom2).Equal(o.preSup2) {
		w.Violate("C04:supply-changed", "%s changed total supply %s -> %s", kind, o.preSup, w.Supply(denom))
	}
	if res.Code != 0 {
		w.Probe("purchase_failed:" + o.exp.kind)
		if !o.pre.Equal(post) {
			w.Violate("C04:failed-but-moved", "%s failed (code %d) but balances changed: %v", msgKinds(msgs), res.Code, o.pre.Delta(post, denom))
		}
		return
	}
	delta := o.pre.Delta(post, denom)
	if len(o.pre.Delta(post, denom2)) != 0 {
		w.Violate("C04:third-party-moved", "%s moved the second denomination", kind)
	}
	// gauge funding = gauge record
	postG := readGauges(w)
	gaugeIn := sdk.ZeroInt()
	gaugeAccts := map[string]bool{}
	for a, pg := range postG.accts {
		gaugeAccts[a] = true
		in := delta[a]
		if in.IsNil() {
			in = sdk.ZeroInt()
		}
		recDelta := pg.Coins.AmountOf(denom)
		if old, ok := o.preG.accts[a]; ok {
			recDelta = recDelta.Sub(old.Coins.AmountOf(denom))
		}
		if !in.Equal(recDelta) {
			w.Violate("C04:gauge-funding≠record", "%s: gauge account %s received %s but its record grew by %s", kind, a, in, recDelta)
		}
		gaugeIn = gaugeIn.Add(in)
	}
	for a := range o.preG.accts {
		gaugeAccts[a] = true
	}
	if len(msgs) != 1 {
		// multi-message purchase: conservation only
		sum := sdk.ZeroInt()
		for _, d := range delta {
			sum = sum.Add(d)
		}
		if !sum.IsZero() {
			w.Violate("C04:credits≠debit", "%s: balance changes do not sum to zero (%s)", msgKinds(msgs), sum)
		}
		w.Probe("multi_msg_purchase_ok")
		return
	}
	payer := ""
	switch m := msgs[0].(type) {
	case *storagetypes.MsgBuyStorage:
		payer = canonAddr(m.Creator)
	case *storagetypes.MsgPostFile:
		payer = canonAddr(m.Creator)
	}
	D := sdk.ZeroInt()
	if d, ok := delta[payer]; ok {
		D = d.Neg()
	}
	// a payer that is also the referrer target cannot happen (self-referral is not a referral)
	if !o.exp.known {
		w.Violate("C04:succeeded-without-price", "%s succeeded although the chain's pricing functions reject it on the pre-state", kind)
		return
	}
	w.Probe("purchase_ok:" + o.exp.kind)
	w.NonTrivial()
	if !D.Equal(o.exp.price) {
		w.Violate("C04:debit≠price:"+o.exp.kind, "%s: payer %s was debited %s, the chain's price is %s", kind, payer, D, o.exp.price)
	}
	credits := sdk.ZeroInt()
	allowed := map[string]bool{payer: true, addrStorage: true}
	for a := range gaugeAccts {
		allowed[a] = true
	}
	pol := sdk.NewInt(o.params.PolRatio)
	ref := sdk.NewInt(o.params.ReferralCommission)
	if _, isBuy := msgs[0].(*storagetypes.MsgBuyStorage); isBuy {
		allowed[addrPOL] = true
		expPol := D.Mul(pol.SubRaw(o.exp.discount)).QuoRaw(100)
		gotPol := delta[addrPOL]
		if gotPol.IsNil() {
			gotPol = sdk.ZeroInt()
		}
		if !within1(gotPol, expPol) {
			w.Violate("C04:pol-share", "%s: protocol liquidity received %s, expected %s (%s%% - %d%% of %s)", kind, gotPol, expPol, pol, o.exp.discount, D)
		}
		expRef := D.Mul(ref).QuoRaw(100)
		if o.exp.referred {
			allowed[o.exp.refAddr] = true
			got := delta[o.exp.refAddr]
			if got.IsNil() {
				got = sdk.ZeroInt()
			}
			if o.exp.refAddr == payer || o.exp.refAddr == addrPOL || gaugeAccts[o.exp.refAddr] {
				w.Probe("referrer_aliases_other_leg")
			} else if !within1(got, expRef) {
				w.Violate("C04:referrer-share", "%s: referrer %s received %s, expected %s (%s%% of %s)", kind, o.exp.refAddr, got, expRef, ref, D)
			}
		} else {
			allowed[addrFeeCollector] = true
			allowed[addrDistr] = true
			got := sdk.ZeroInt()
			for _, a := range []string{addrFeeCollector, addrDistr} {
				if d, ok := delta[a]; ok {
					got = got.Add(d)
				}
			}
			if !within1(got, expRef) {
				w.Violate("C04:feepool-share", "%s: stakers' fee pool received %s, expected %s (%s%% of %s)", kind, got, expRef, ref, D)
			}
		}
	}
	for a, d := range delta {
		if !allowed[a] {
			w.Violate("C04:third-party-moved", "%s: account %s moved by %s", kind, a, d)
		}
		if a != payer && d.IsPositive() {
			credits = credits.Add(d)
		}
		if a != payer && d.IsNegative() {
			w.Violate("C04:third-party-moved", "%s: account %s was debited %s", kind, a, d.Neg())
		}
	}
	if !credits.Equal(D) {
		w.Violate("C04:credits≠debit", "%s: debit %s, credits %s", kind, D, credits)
	}
	if d, ok := delta[addrStorage]; ok && d.IsNegative() {
		w.Violate("C04:module-drained", "%s: storage module lost %s", kind, d.Neg())
	}
	// the gauge leg: what is left after referral and liquidity shares
	expGauge := D.Mul(sdk.NewInt(100).Sub(pol).Sub(ref)).QuoRaw(100)
	if !within1(gaugeIn, expGauge) {
		w.Violate("C04:gauge-share", "%s: provider gauge received %s, expected %s of %s", kind, gaugeIn, expGauge, D)
	}
	_ = fmt.Sprint
}

func init() {
	register(&Property{
		ID:        "C04",
		NewGen:    func() Generator { return &genC04{} },
		NewOracle: func() Oracle { return &oracleC04{} },
		Runs:      map[string]int{"quick": 500, "thorough": 15000},
		Required: []string{"purchase_ok:new", "purchase_ok:new:referred", "purchase_ok:upgrade", "purchase_ok:upgrade:referred", "purchase_ok:renew", "purchase_ok:payonce",
			"purchase_failed:new", "purchase_failed:upgrade", "purchase_failed:payonce", "multi_msg_purchase_ok"},
		Rule: "online-generated purchase histories: sizes 1 GB..50 TB across price tiers, durations 1 day..3 years, for self and others, referral in {none, self, other address, name resolving to other / to the buyer, unresolvable}, on no/active/expired plans (clock jumps), pay-once posts around the 1024 kB minimum and one-day expiry, POL and referral ratios incl. 0 and 100, price feed absent/present, drained payers, multi-message transactions, swarm network faults; " +
			"non-trivial = at least one purchase succeeded and was judged leg by leg; distinct = distinct (message kind, outcome) sequences",
	})
}
