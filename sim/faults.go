package main

// Net is the simulated mempool/network between clients and the block proposer.
// Given the transactions clients create in a block it decides, from the run
// PRNG, which are lost, duplicated, delayed, reordered or starved of gas.
type Net struct {
	Enabled map[string]bool
	Rate    int // per-mille of steps affected by each enabled fault
	nextID  int
	later   map[int][]Step // block index -> steps to inject
	MaxDelay int
}

var netFaultKinds = []string{"tx_drop", "tx_dup", "tx_delay", "tx_reorder", "out_of_gas", "crash_restart"}

// newNet picks the fault kinds of this run swarm-style: a third of the runs are
// fault-free, the others enable 1-3 kinds among allowed.
func newNet(rng *Rng, allowed []string, maxDelay int) *Net {
	n := &Net{Enabled: map[string]bool{}, later: map[int][]Step{}, nextID: 1, MaxDelay: maxDelay}
	n.Rate = int(rng.Pick64(30, 60, 100, 150))
	if rng.Chance(1, 3) || len(allowed) == 0 {
		return n
	}
	k := 1 + rng.Intn(3)
	for i := 0; i < k; i++ {
		n.Enabled[allowed[rng.Intn(len(allowed))]] = true
	}
	return n
}

func (n *Net) on(kind string, rng *Rng) bool {
	if !n.Enabled[kind] {
		return false
	}
	return rng.Intn(1000) < n.Rate
}

// Apply transforms the client steps of block b.
func (n *Net) Apply(rng *Rng, b int, nodes int, steps []Step) []Step {
	var out []Step
	out = append(out, n.later[b]...)
	delete(n.later, b)
	for _, st := range steps {
		if st.Kind != "tx" {
			out = append(out, st)
			continue
		}
		switch {
		case n.on("tx_drop", rng):
			// lost: never delivered. Recorded as a zero-op marker for counting.
			out = append(out, Step{Kind: "dropped", Fault: "tx_drop", Ops: st.Ops, Signer: st.Signer})
		case n.on("tx_dup", rng):
			id := n.nextID
			n.nextID++
			p := st
			p.Kind, p.ID = "prep", id
			out = append(out, p, Step{Kind: "send", ID: id, Signer: -1, Ops: st.Ops}, Step{Kind: "send", ID: id, Signer: -1, Fault: "tx_dup", Ops: st.Ops})
		case n.on("tx_delay", rng):
			id := n.nextID
			n.nextID++
			p := st
			p.Kind, p.ID = "prep", id
			out = append(out, p)
			d := 1 + rng.Intn(n.MaxDelay)
			n.later[b+d] = append(n.later[b+d], Step{Kind: "send", ID: id, Signer: -1, Fault: "tx_delay", Ops: st.Ops})
		case n.on("multi_msg", rng) && len(st.Ops) == 1:
			// the same signer appends a second message to the transaction; usually one that must
			// fail (so everything the first message did has to be rolled back), sometimes a copy
			if rng.Chance(3, 4) {
				st.Ops = append(st.Ops, mkOp("bank_send", st.Ops[0].A).withN("to", 0).withN("amt", 9_000_000_000_000_000_000))
			} else {
				st.Ops = append(st.Ops, st.Ops[0])
			}
			st.Fault = "multi_msg"
			out = append(out, st)
		case n.on("out_of_gas", rng):
			st.Gas = uint64(rng.Range(40_000, 300_000))
			st.Fault = "out_of_gas"
			out = append(out, st)
		default:
			out = append(out, st)
		}
		if n.on("crash_restart", rng) {
			kind := "crash"
			if rng.Chance(1, 4) {
				kind = "crash_end" // die between EndBlock and Commit
			}
			out = append(out, Step{Kind: kind, N: map[string]int64{"node": int64(rng.Intn(nodes))}})
		}
	}
	if n.Enabled["tx_reorder"] && len(out) > 1 && rng.Intn(1000) < 3*n.Rate {
		// reorder: swap two steps (a prep must stay before its sends: only swap tx steps)
		i, j := rng.Intn(len(out)), rng.Intn(len(out))
		if out[i].Kind == "tx" && out[j].Kind == "tx" && i != j {
			out[i], out[j] = out[j], out[i]
			out[i].Fault, out[j].Fault = pickFault(out[i].Fault, "tx_reorder"), out[j].Fault
		}
	}
	return out
}

func pickFault(a, b string) string {
	if a != "" {
		return a
	}
	return b
}

func init() {
	stepHandlers["dropped"] = func(w *World, st *Step) { w.Fault("tx_drop") }
}
