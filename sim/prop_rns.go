package main

import (
	"fmt"
	"strings"

	sdk "github.com/cosmos/cosmos-sdk/types"
	abci "github.com/tendermint/tendermint/abci/types"

	rnskeeper "github.com/jackalLabs/canine-chain/v4/x/rns/keeper"
	rnstypes "github.com/jackalLabs/canine-chain/v4/x/rns/types"
)

const rnsYear = int64(5484530)

// ---------------- shared RNS workload ----------------

type genRns struct {
	net     *Net
	nb      int
	traders []int
	names   []string
	future  map[int][]Step // steps scheduled for a later block of this run
}

var rnsNamePool = []string{"a.jkl", "bb.jkl", "ccc.ibc", "dddd.jkl", "eeeee.jkl", "Ffffff.JKL", "long-name.ibc", "x.ibc", "MiXed.jkl", "seven77.jkl",
	// labels that contain the other TLD, a TLD as label, digits and dashes
	"ibc.jkl", "jkl.ibc", "xibcx.jkl", "my-jkl-name.ibc", "jkljkl.jkl", "0.jkl",
	// short labels padded with the other legal characters: the price tier follows the full length (seeded change Y16-B)
	"a_.jkl", "-b-.ibc", "ab-_.jkl"}

func (g *genRns) Config(rng *Rng, tier string) Config {
	c := baseConfig(rng)
	nt := 4 + rng.Intn(3)
	c.NAccts = nt + 2
	for i := 1; i <= nt; i++ {
		g.traders = append(g.traders, i)
	}
	c.Mint.StorageStipendAddress = makeAcct(nt + 1).Bech
	c.InitialHeight = rng.Pick64(1, 50, 6_000_000, 12_000_000)
	g.nb = 35 + rng.Intn(40)
	if tier == "thorough" {
		g.nb = 40 + rng.Intn(80)
	}
	nn := 3 + rng.Intn(6)
	perm := rng.Perm(len(rnsNamePool))
	for i := 0; i < nn; i++ {
		g.names = append(g.names, rnsNamePool[perm[i]])
	}
	if rng.Chance(1, 2) {
		// the same label under the other top-level domain: two independent names
		n := g.names[rng.Intn(len(g.names))]
		twin := ""
		switch {
		case strings.HasSuffix(n, ".jkl"):
			twin = strings.TrimSuffix(n, ".jkl") + ".ibc"
		case strings.HasSuffix(n, ".ibc"):
			twin = strings.TrimSuffix(n, ".ibc") + ".jkl"
		}
		dup := twin == ""
		for _, x := range g.names {
			dup = dup || x == twin
		}
		if !dup {
			g.names = append(g.names, twin)
		}
	}
	// some names already exist at genesis with expiries straddling the run
	for i, n := range g.names {
		if rng.Chance(1, 2) {
			continue
		}
		parts := strings.SplitN(strings.ToLower(n), ".", 2)
		exp := c.InitialHeight + rng.Range(-6, int64(g.nb)+10)
		if rng.Chance(1, 4) {
			exp = c.InitialHeight + rnsYear // long-lived
		}
		if exp < 1 {
			exp = 1
		}
		c.SeedNames = append(c.SeedNames, SeedName{Name: parts[0], Tld: parts[1], Owner: g.traders[(i+rng.Intn(2))%len(g.traders)], Expires: exp})
	}
	if rng.Chance(1, 3) {
		c.PoorAccts = []int{g.traders[rng.Intn(len(g.traders))]}
		c.PoorBalance = rng.Pick64(0, 1000, 9_999_999, 60_000_000)
	}
	c.InvCheckPeriod = uint(rng.Pick64(0, 0, 1))
	g.net = newNet(rng, []string{"tx_dup", "tx_delay", "tx_reorder", "out_of_gas", "crash_restart", "tx_drop", "multi_msg"}, 6)
	return c
}

func (g *genRns) NBlocks() int { return g.nb }

func (g *genRns) Block(w *World, b int) Block {
	rng := w.rng
	blk := Block{DtNs: pickDt(rng, false)}
	var steps []Step
	add := func(ops ...Op) { steps = append(steps, txStep(ops...)) }
	if g.future == nil {
		g.future = map[int][]Step{}
	}
	steps = append(steps, g.future[b]...)
	delete(g.future, b)
	if rng.Chance(1, 12) {
		// somebody registers (and pays for) exactly the free name Init will hand out a few blocks
		// from now; another account then calls Init in that block
		ahead := 1 + rng.Intn(5)
		hf := w.height + 1 + int64(ahead)
		free := rnstypes.MakeName(int(hf), hf) + ".jkl"
		a, bb := g.traders[rng.Intn(len(g.traders))], g.traders[rng.Intn(len(g.traders))]
		steps = append(steps, txStep(mkOp("rns_register", a).withS("name", free).withN("years", 1)))
		if rng.Chance(1, 2) {
			steps = append(steps, txStep(mkOp("rns_addrecord", a).withS("name", free).withS("record", "www").withN("value", int64(bb))))
		}
		g.future[b+ahead] = append(g.future[b+ahead], txStep(mkOp("rns_init", bb)))
	}
	k := rng.Intn(4)
	if b < 4 {
		k += 2
	}
	names := w.node().app.RnsKeeper.GetAllNames(w.Ctx())
	ownerOf := func(full string) int {
		parts := strings.SplitN(strings.ToLower(full), ".", 2)
		for _, n := range names {
			if n.Name == parts[0] && n.Tld == parts[1] {
				for _, a := range w.accts {
					if a.Bech == n.Value {
						return a.Idx
					}
				}
			}
		}
		return -1
	}
	for i := 0; i < k; i++ {
		t := g.traders[rng.Intn(len(g.traders))]
		n := g.names[rng.Intn(len(g.names))]
		if rng.Chance(1, 6) {
			n = strings.ToUpper(n)
		}
		own := ownerOf(n)
		actor := t
		if own >= 0 && rng.Chance(3, 5) {
			actor = own // owner acts most of the time, strangers the rest
		}
		switch rng.Weighted([]int{16, 4, 6, 12, 6, 8, 8, 10, 5, 10, 6, 4, 2, 3, 4, 3}) {
		case 0:
			add(mkOp("rns_register", t).withS("name", n).withN("years", rng.Pick64(1, 1, 2, 5, 0, -1)).withN("primary", rng.Range(0, 1)))
		case 1:
			add(mkOp("rns_register_old", actor).withS("name", n).withN("years", rng.Pick64(1, 2)))
		case 2:
			un := n
			if rng.Chance(1, 4) {
				un = rng.PickS("www", "mail", "x") + "." + n // a record path instead of a name
				actor = t
			}
			add(mkOp("rns_update", actor).withS("name", un).withS("data", fmt.Sprintf(`{"v":%d}`, rng.Intn(100))))
		case 3:
			dn := denom
			if rng.Chance(1, 4) {
				dn = denom2
			}
			add(mkOp("rns_bid", t).withS("name", n).withN("amt", rng.Pick64(1, 1000, 5_000_000, 70_000_000)).withS("denom", dn))
		case 4:
			add(mkOp("rns_cancel", t).withS("name", n))
		case 5:
			add(mkOp("rns_accept", actor).withS("name", n).withN("from", int64(g.traders[rng.Intn(len(g.traders))])))
		case 6:
			add(mkOp("rns_list", actor).withS("name", n).withN("price", rng.Pick64(1, 1000, 20_000_000, 90_000_000)))
		case 7:
			add(mkOp("rns_buy", t).withS("name", n))
		case 8:
			add(mkOp("rns_delist", actor).withS("name", n))
		case 9:
			add(mkOp("rns_transfer", actor).withS("name", n).withN("to", int64(g.traders[rng.Intn(len(g.traders))])))
		case 10:
			add(mkOp("rns_addrecord", actor).withS("name", n).withS("record", rng.PickS("www", "mail", "x")).withN("value", int64(t)))
		case 11:
			add(mkOp("rns_delrecord", actor).withS("name", rng.PickS("www", "mail", "x")+"."+n))
		case 12:
			add(mkOp("rns_init", t))
		case 13:
			add(mkOp("rns_makeprimary", t).withS("name", n))
		case 15: // a bid, then a re-bid inside a transaction that is rolled back, then cancel or accept
			amt := rng.Pick64(1000, 5_000_000)
			add(mkOp("rns_bid", t).withS("name", n).withN("amt", amt))
			st := txStep(mkOp("rns_bid", t).withS("name", n).withN("amt", amt*rng.Pick64(2, 10)),
				mkOp("bank_send", t).withN("to", 0).withN("amt", 9_000_000_000_000_000_000))
			st.Fault = "multi_msg"
			steps = append(steps, st)
			if rng.Chance(1, 2) {
				add(mkOp("rns_cancel", t).withS("name", n))
			} else if own >= 0 {
				add(mkOp("rns_accept", own).withS("name", n).withN("from", int64(t)))
			}
		case 14: // the classic stale-listing history compressed into one block: list, transfer, buy
			if own >= 0 {
				to := g.traders[rng.Intn(len(g.traders))]
				add(mkOp("rns_list", own).withS("name", n).withN("price", rng.Pick64(1000, 20_000_000)))
				if rng.Chance(1, 2) {
					add(mkOp("rns_transfer", own).withS("name", n).withN("to", int64(to)))
				} else {
					add(mkOp("rns_bid", to).withS("name", n).withN("amt", 1000))
					add(mkOp("rns_accept", own).withS("name", n).withN("from", int64(to)))
				}
				add(mkOp("rns_buy", t).withS("name", n))
			}
		}
	}
	for i := range steps {
		if steps[i].Kind == "tx" && rng.Chance(1, 25) {
			if steps[i].N == nil {
				steps[i].N = map[string]int64{}
			}
			steps[i].N["upper"] = 1
		}
	}
	blk.Steps = g.net.Apply(rng, b, len(w.nodes), steps)
	if len(w.nodes) == 1 && rng.Chance(1, 50) {
		blk.Reimport = true // restart of the whole chain from its own exported genesis
	}
	return blk
}

// ---------------- shared observation ----------------

type rnsSnap struct {
	names map[string]rnstypes.Names // "name.tld"
	sales map[string]rnstypes.Forsale
	bids  map[string]rnstypes.Bids
	bal   Bal
}

func readRns(w *World) rnsSnap {
	ctx := w.Ctx()
	k := w.node().app.RnsKeeper
	s := rnsSnap{names: map[string]rnstypes.Names{}, sales: map[string]rnstypes.Forsale{}, bids: map[string]rnstypes.Bids{}, bal: w.Balances()}
	for _, n := range k.GetAllNames(ctx) {
		s.names[n.Name+"."+n.Tld] = n
	}
	for _, f := range k.GetAllForsale(ctx) {
		s.sales[f.Name] = f
	}
	for _, b := range k.GetAllBids(ctx) {
		s.bids[b.Index] = b
	}
	return s
}

func rnsMsgName(m sdk.Msg) (string, bool) {
	var n string
	switch x := m.(type) {
	case *rnstypes.MsgRegister:
		n = x.Name
	case *rnstypes.MsgRegisterName:
		n = x.Name
	case *rnstypes.MsgUpdate:
		n = x.Name
	case *rnstypes.MsgBid:
		n = x.Name
	case *rnstypes.MsgAcceptBid:
		n = x.Name
	case *rnstypes.MsgCancelBid:
		n = x.Name
	case *rnstypes.MsgList:
		n = x.Name
	case *rnstypes.MsgBuy:
		n = x.Name
	case *rnstypes.MsgDelist:
		n = x.Name
	case *rnstypes.MsgTransfer:
		n = x.Name
	case *rnstypes.MsgAddRecord:
		n = x.Name
	case *rnstypes.MsgDelRecord:
		n = x.Name
		if i := strings.Index(n, "."); i >= 0 && strings.Count(n, ".") >= 2 {
			n = n[i+1:]
		}
	case *rnstypes.MsgMakePrimary:
		n = x.Name
	default:
		return "", false
	}
	return strings.ReplaceAll(strings.ToLower(n), " ", ""), true
}

func msgCreator(m sdk.Msg) string {
	s := m.GetSigners()
	if len(s) == 0 {
		return ""
	}
	return s[0].String()
}

func namesEqual(a, b rnstypes.Names) bool {
	ab, _ := a.Marshal()
	bb, _ := b.Marshal()
	return string(ab) == string(bb)
}

func recordsEqual(a, b rnstypes.Names) bool {
	if len(a.Subdomains) != len(b.Subdomains) {
		return false
	}
	for i := range a.Subdomains {
		x, _ := a.Subdomains[i].Marshal()
		y, _ := b.Subdomains[i].Marshal()
		if string(x) != string(y) {
			return false
		}
	}
	return true
}

// ---------------- C08 ----------------

type oracleC08 struct {
	NopOracle
	pre     rnsSnap
	lister  map[string]string // listing name -> account that created it (shadow history)
}

func (o *oracleC08) Start(w *World)                                   { o.lister = map[string]string{} }
func (o *oracleC08) BeforeStep(w *World, st *Step, msgs []sdk.Msg)    { o.pre = readRns(w) }

func (o *oracleC08) AfterStep(w *World, st *Step, msgs []sdk.Msg, res *abci.ResponseDeliverTx) {
	post := readRns(w)
	if len(msgs) != 1 {
		return
	}
	m := msgs[0]
	kind := shortKind(msgs)
	signer := msgCreator(m)
	target, _ := rnsMsgName(m)
	h := w.height
	for key, pn := range o.pre.names {
		if !(h < pn.Expires) {
			continue // not definitely live
		}
		qn, ok := post.names[key]
		if ok && namesEqual(pn, qn) {
			continue
		}
		// a live name changed (or vanished)
		ownerChanged := !ok || canonAddr(qn.Value) != canonAddr(pn.Value)
		if res.Code != 0 {
			w.Violate("C08:failed-but-changed:"+kind, "failed %s changed live name %s", kind, key)
			continue
		}
		byOwner := signer == canonAddr(pn.Value) && target == key
		switch x := m.(type) {
		case *rnstypes.MsgTransfer:
			if !byOwner {
				w.Violate("C08:owner-changed-without-consent:"+kind, "name %s (owner %s) changed by a transfer signed by %s for %s", key, pn.Value, signer, target)
			} else {
				w.Probe("transfer_ok")
			}
		case *rnstypes.MsgAcceptBid:
			if !byOwner {
				w.Violate("C08:owner-changed-without-consent:"+kind, "name %s (owner %s) changed by a bid acceptance signed by %s for %s", key, pn.Value, signer, target)
				break
			}
			w.Probe("accept_ok")
			if bid, ok := o.pre.bids[canonAddr(x.From)+key]; ok {
				price, err := sdk.ParseCoinsNormalized(bid.Price)
				if err == nil {
					for _, c := range price {
						got := post.bal.Of(pn.Value, c.Denom).Sub(o.pre.bal.Of(pn.Value, c.Denom))
						if !got.Equal(c.Amount) {
							w.Violate("C08:seller-not-paid", "accepting the bid of %s on %s paid the previous owner %s %s, bid was %s", x.From, key, got, c.Denom, c.Amount)
						}
					}
				}
			}
		case *rnstypes.MsgUpdate, *rnstypes.MsgAddRecord, *rnstypes.MsgDelRecord:
			if !byOwner {
				w.Violate("C08:record-changed-by-stranger:"+kind, "name %s (owner %s) data/records changed by %s", key, pn.Value, signer)
			} else if ownerChanged {
				w.Violate("C08:owner-changed-without-consent:"+kind, "%s changed the owner of %s", kind, key)
			} else {
				w.Probe("owner_edit_ok")
			}
		case *rnstypes.MsgRegister, *rnstypes.MsgRegisterName:
			if !byOwner {
				w.Violate("C08:owner-changed-without-consent:"+kind, "live name %s (owner %s, expires %d, height %d) re-registered by %s", key, pn.Value, pn.Expires, h, signer)
			} else if ownerChanged {
				w.Violate("C08:owner-changed-without-consent:"+kind, "renewal changed the owner of %s", key)
			}
		case *rnstypes.MsgBuy:
			if target != key {
				w.Violate("C08:owner-changed-without-consent:"+kind, "buying %s changed %s", target, key)
				break
			}
			sale, listed := o.pre.sales[key]
			creator := o.lister[key]
			if !listed {
				w.Violate("C08:owner-changed-without-consent:"+kind, "name %s bought without a listing", key)
				break
			}
			if canonAddr(creator) != canonAddr(pn.Value) {
				w.Violate("C08:stale-listing-honoured", "name %s owned by %s was sold through a listing created by %s (listing owner field %s); buyer %s", key, pn.Value, creator, sale.Owner, signer)
				break
			}
			w.Probe("buy_ok")
			price, err := sdk.ParseCoinNormalized(sale.Price)
			if signer == canonAddr(pn.Value) {
				// the owner bought its own listing under another spelling of its address: it pays itself
				w.Probe("self_purchase")
			} else if err == nil {
				got := post.bal.Of(pn.Value, price.Denom).Sub(o.pre.bal.Of(pn.Value, price.Denom))
				if !got.Equal(price.Amount) {
					w.Violate("C08:seller-not-paid", "sale of %s for %s paid the previous owner %s", key, price, got)
				}
			}
		default:
			if ownerChanged {
				w.Violate("C08:owner-changed-without-consent:"+kind, "live name %s changed owner through %s signed by %s", key, kind, signer)
			} else {
				w.Violate("C08:record-changed-by-stranger:"+kind, "live name %s data/records changed through %s signed by %s", key, kind, signer)
			}
		}
		w.NonTrivial()
	}
	// shadow: who created which listing
	if res.Code == 0 {
		if l, ok := m.(*rnstypes.MsgList); ok {
			if _, now := post.sales[target]; now {
				o.lister[target] = l.Creator
			}
		}
		for key := range o.lister {
			if _, still := post.sales[key]; !still {
				delete(o.lister, key)
			}
		}
		if _, ok := m.(*rnstypes.MsgBuy); ok {
			if sale, listed := o.pre.sales[target]; listed {
				if pn, ok := o.pre.names[target]; ok && sale.Owner != pn.Value {
					w.Probe("stale_listing_buy_succeeded")
				}
			}
		}
	}
	if _, ok := m.(*rnstypes.MsgBuy); ok {
		if sale, listed := o.pre.sales[target]; listed {
			if pn, ok := o.pre.names[target]; ok && sale.Owner != pn.Value {
				w.Probe("stale_listing_attempt")
			}
		}
	}
}

// ---------------- C09 ----------------

type oracleC09 struct {
	NopOracle
	pre    rnsSnap
	escrow map[string]sdk.Coins // bidder+name -> net escrowed
}

func (o *oracleC09) Start(w *World)                                { o.escrow = map[string]sdk.Coins{}; o.invariant(w, readRns(w), "genesis") }
func (o *oracleC09) BeforeStep(w *World, st *Step, msgs []sdk.Msg) { o.pre = readRns(w) }

func (o *oracleC09) invariant(w *World, s rnsSnap, where string) {
	sum := sdk.NewCoins()
	for _, b := range s.bids {
		c, err := sdk.ParseCoinsNormalized(b.Price)
		if err != nil {
			w.Violate("C09:unparseable-bid", "bid %s has price %q", b.Index, b.Price)
			continue
		}
		sum = sum.Add(c...)
	}
	mod := s.bal[moduleAddr(rnstypes.ModuleName)]
	if !coinsEq(mod, sum) {
		w.Violate("C09:escrow≠bids:"+where, "name-service module account holds %s, open bids total %s", mod, sum)
	}
}

func coinsDelta(pre, post Bal, addr string) (up sdk.Coins, down sdk.Coins) {
	up, down = sdk.NewCoins(), sdk.NewCoins()
	for _, dn := range []string{denom, denom2} {
		d := post.Of(addr, dn).Sub(pre.Of(addr, dn))
		if d.IsPositive() {
			up = up.Add(sdk.NewCoin(dn, d))
		} else if d.IsNegative() {
			down = down.Add(sdk.NewCoin(dn, d.Neg()))
		}
	}
	return
}

func (o *oracleC09) AfterStep(w *World, st *Step, msgs []sdk.Msg, res *abci.ResponseDeliverTx) {
	post := readRns(w)
	kind := shortKind(msgs)
	o.invariant(w, post, "after "+kind)
	if len(msgs) != 1 {
		// a successful multi-message transaction made of copies of one message is accounted as one
		// step over the whole transaction's balance changes; anything else is only held to the invariant
		same := res.Code == 0
		for _, m := range msgs[1:] {
			// (copies that spell the creator differently — addr_respelling — count as different messages)
			if mustJSON(m) != mustJSON(msgs[0]) || sdk.MsgTypeURL(m) != sdk.MsgTypeURL(msgs[0]) {
				same = false
			}
		}
		if !same {
			if res.Code != 0 && (!o.pre.bal.Equal(post.bal) || len(o.pre.bids) != len(post.bids)) {
				w.Violate("C09:failed-but-moved:"+kind, "failed multi-message %s moved balances or bids", kind)
			}
			if res.Code == 0 {
				// a successful transaction of different messages: the balance changes cannot be attributed to
				// one message, so it is held to the conservation invariant above only, and the per-bid escrow
				// model of every bid it names is re-read from the bid records (sum of bids == module balance
				// has just been checked)
				for _, mm := range msgs {
					var bidder string
					switch m := mm.(type) {
					case *rnstypes.MsgBid:
						bidder = m.Creator
					case *rnstypes.MsgCancelBid:
						bidder = m.Creator
					case *rnstypes.MsgAcceptBid:
						bidder = m.From
					default:
						continue
					}
					t, _ := rnsMsgName(mm)
					key := canonAddr(bidder) + t
					if b, open := post.bids[key]; open {
						if c, err := sdk.ParseCoinsNormalized(b.Price); err == nil {
							o.escrow[key] = c
						}
					} else {
						delete(o.escrow, key)
					}
				}
				w.Probe("multi_msg_mixed_ok")
			}
			return
		}
		msgs = msgs[:1]
	}
	modAddr := moduleAddr(rnstypes.ModuleName)
	target, _ := rnsMsgName(msgs[0])
	if res.Code != 0 {
		if !o.pre.bal.Equal(post.bal) || len(o.pre.bids) != len(post.bids) {
			w.Violate("C09:failed-but-moved:"+kind, "failed %s moved balances or bids", kind)
		}
		return
	}
	switch m := msgs[0].(type) {
	case *rnstypes.MsgBid:
		key := canonAddr(m.Creator) + target
		up, down := coinsDelta(o.pre.bal, post.bal, canonAddr(m.Creator))
		cur := o.escrow[key]
		cur = cur.Add(down...)
		if !up.IsZero() {
			if !coinsLTE(up, cur) {
				w.Violate("C09:bid-refund>escrow", "re-bid refunded %s, escrowed %s", up, cur)
			} else {
				cur = cur.Sub(up)
			}
		}
		o.escrow[key] = cur
		if _, had := o.pre.bids[key]; had {
			w.Probe("repeated_bid")
		}
		w.Probe("bid_ok")
		w.NonTrivial()
	case *rnstypes.MsgCancelBid:
		key := canonAddr(m.Creator) + target
		up, down := coinsDelta(o.pre.bal, post.bal, canonAddr(m.Creator))
		if !down.IsZero() || !coinsEq(up, o.escrow[key]) {
			w.Violate("C09:cancel-refund≠escrow", "cancelling the bid on %s returned %s to %s, it had escrowed %s", target, up, m.Creator, o.escrow[key])
		}
		if _, still := post.bids[key]; still {
			w.Violate("C09:bid-survives-cancel", "bid %s still open after cancel", key)
		}
		delete(o.escrow, key)
		w.Probe("cancel_ok")
	case *rnstypes.MsgAcceptBid:
		key := canonAddr(m.From) + target
		up, _ := coinsDelta(o.pre.bal, post.bal, canonAddr(m.Creator))
		if !coinsEq(up, o.escrow[key]) {
			w.Violate("C09:accept-pay≠bid", "accepting the bid of %s on %s paid the owner %s, escrowed %s", m.From, target, up, o.escrow[key])
		}
		if _, still := post.bids[key]; still {
			w.Violate("C09:bid-survives-accept", "bid %s still open after acceptance", key)
		}
		delete(o.escrow, key)
		w.Probe("accept_ok")
	case *rnstypes.MsgRegister, *rnstypes.MsgRegisterName, *rnstypes.MsgBuy:
		if !coinsEq(o.pre.bal[modAddr], post.bal[modAddr]) {
			which := "register"
			if _, ok := m.(*rnstypes.MsgBuy); ok {
				which = "buy"
			}
			w.Violate("C09:residue:"+which, "%s changed the module balance %s -> %s", kind, o.pre.bal[modAddr], post.bal[modAddr])
		}
		w.Probe("passthrough_ok")
	default:
		if !coinsEq(o.pre.bal[modAddr], post.bal[modAddr]) {
			w.Violate("C09:module-moved:"+kind, "%s changed the module balance", kind)
		}
	}
}

func (o *oracleC09) AfterBegin(w *World, _ *abci.ResponseBeginBlock) { o.invariant(w, readRns(w), "begin-block") }

// ---------------- C16 ----------------

type oracleC16 struct {
	NopOracle
	pre rnsSnap
}

func (o *oracleC16) BeforeStep(w *World, st *Step, msgs []sdk.Msg) { o.pre = readRns(w) }

func (o *oracleC16) AfterStep(w *World, st *Step, msgs []sdk.Msg, res *abci.ResponseDeliverTx) {
	if len(msgs) != 1 {
		return
	}
	var creator string
	var years int64
	switch m := msgs[0].(type) {
	case *rnstypes.MsgRegister:
		creator, years = m.Creator, m.Years
	case *rnstypes.MsgRegisterName:
		creator, years = m.Creator, m.Years
	default:
		return
	}
	initAddrs()
	creator = canonAddr(creator)
	post := readRns(w)
	key, _ := rnsMsgName(msgs[0])
	h := w.height
	old, existed := o.pre.names[key]
	phase := "new"
	if existed {
		same := canonAddr(old.Value) == creator // the record may hold another spelling of the same account
		switch {
		case h < old.Expires && same:
			phase = "live-same"
		case h < old.Expires:
			phase = "live-other"
		case h == old.Expires && same:
			phase = "at-expiry-same"
		case h == old.Expires:
			phase = "at-expiry-other"
		case same:
			phase = "expired-same"
		default:
			phase = "expired-other"
		}
	}
	w.Probe("register_attempt:" + phase)
	if res.Code != 0 {
		if !o.pre.bal.Equal(post.bal) {
			w.Violate("C16:failed-but-charged", "failed registration of %s by %s moved balances", key, creator)
		}
		return
	}
	w.Probe("register_ok:" + phase)
	w.NonTrivial()
	if phase == "live-other" {
		w.Violate("C16:live-name-taken", "%s registered %s which is owned by %s until %d (height %d)", creator, key, old.Value, old.Expires, h)
	}
	parts := strings.SplitN(key, ".", 2)
	if len(parts) != 2 {
		return
	}
	cost, err := rnskeeper.GetCostOfName(parts[0], parts[1])
	if err != nil {
		w.Violate("C16:registered-unpriceable", "registration of %q succeeded but the price list rejects it: %v", key, err)
		return
	}
	// the yearly price is a function of the label's length (all of it) and the TLD, modelled here
	// independently of the keeper's helper: 24/12/6/3/1 times the TLD's base price for 1/2/3/4/5+ characters
	// (seeded change Y16-B altered the helper itself, which the oracle used to trust)
	mult := int64(1)
	switch len(parts[0]) {
	case 1:
		mult = 24
	case 2:
		mult = 12
	case 3:
		mult = 6
	case 4:
		mult = 3
	}
	if base, ok := rnstypes.TLDCost[parts[1]]; ok && cost != base*mult {
		w.Violate("C16:price≠length-tier", "the chain prices %q at %d per year; a %d-character label under .%s costs %d", key, cost, len(parts[0]), parts[1], base*mult)
		cost = base * mult
	}
	expDebit := sdk.NewInt(cost).MulRaw(years)
	debit := o.pre.bal.Of(creator, denom).Sub(post.bal.Of(creator, denom))
	if !debit.Equal(expDebit) {
		w.Violate("C16:debit≠years×price", "registering %s for %d years debited %s, listed price %d per year", key, years, debit, cost)
	}
	pol := post.bal.Of(addrPOL, denom).Sub(o.pre.bal.Of(addrPOL, denom))
	if !pol.Equal(debit) {
		w.Violate("C16:pol-credit≠debit", "registration debit %s, protocol liquidity received %s", debit, pol)
	}
	for a, d := range o.pre.bal.Delta(post.bal, denom) {
		if a != creator && a != addrPOL {
			w.Violate("C16:third-party-moved", "registration moved %s by %s", a, d)
		}
	}
	nn, ok := post.names[key]
	if !ok || canonAddr(nn.Value) != creator {
		w.Violate("C16:not-resolving-to-registrant", "after registration %s resolves to %v", key, nn.Value)
		return
	}
	if r, err := w.node().app.RnsKeeper.Resolve(w.Ctx(), key); err != nil || r.String() != creator {
		w.Violate("C16:not-resolving-to-registrant", "Resolve(%s) = %v, %v", key, r, err)
	}
	term := years * rnsYear
	switch phase {
	case "live-same":
		if nn.Expires != old.Expires+term {
			w.Violate("C16:renewal≠old+years", "renewal of live %s: expiry %d -> %d, expected %d", key, old.Expires, nn.Expires, old.Expires+term)
		}
	case "at-expiry-same":
		if nn.Expires < h+term {
			w.Violate("C16:expiry-too-early:at-expiry-same", "%s expires at %d, registered at %d for %d years", key, nn.Expires, h, years)
		}
	default:
		if nn.Expires < h+term {
			w.Violate("C16:expiry-too-early:"+phase, "%s registered at height %d for %d years expires at %d (needs >= %d)", key, h, years, nn.Expires, h+term)
		}
	}
}

func init() {
	rule := "online-generated name-service histories: 4-6 traders, 3-8 names over both TLDs (lengths 1-6+, mixed case), all 14 messages by owners and strangers, list->transfer/accept->buy compressed into one block, repeated bids in two denominations, genesis-seeded names whose expiry straddles the run (initial heights 1..12M), years in {1,2,5,0,-1}, swarm network faults; "
	register(&Property{ID: "C08", NewGen: func() Generator { return &genRns{} }, NewOracle: func() Oracle { return &oracleC08{} },
		Runs: map[string]int{"quick": 500, "thorough": 15000}, Required: []string{"transfer_ok", "accept_ok", "buy_ok", "owner_edit_ok", "stale_listing_attempt"},
		Rule: rule + "non-trivial = a definitely-live name changed and the change was attributed; distinct = distinct (message kind, outcome) sequences"})
	register(&Property{ID: "C09", NewGen: func() Generator { return &genRns{} }, NewOracle: func() Oracle { return &oracleC09{} },
		Runs: map[string]int{"quick": 500, "thorough": 15000}, Required: []string{"bid_ok", "repeated_bid", "cancel_ok", "accept_ok", "passthrough_ok"},
		Rule: rule + "non-trivial = at least one bid was escrowed; distinct = distinct (message kind, outcome) sequences"})
	register(&Property{ID: "C16", NewGen: func() Generator { return &genRns{} }, NewOracle: func() Oracle { return &oracleC16{} },
		Runs: map[string]int{"quick": 500, "thorough": 15000}, Required: []string{"register_ok:new", "register_ok:live-same", "register_attempt:live-other", "register_ok:expired-other", "register_ok:expired-same"},
		Rule: rule + "non-trivial = at least one registration succeeded and was judged; distinct = distinct (message kind, outcome) sequences"})
}

// coinsEq / coinsLTE compare coin sets denomination by denomination (sdk.Coins.IsEqual panics
// when the two sets hold different denominations).
func coinsEq(a, b sdk.Coins) bool {
	for _, dn := range []string{denom, denom2} {
		if !a.AmountOf(dn).Equal(b.AmountOf(dn)) {
			return false
		}
	}
	for _, c := range a {
		if !b.AmountOf(c.Denom).Equal(c.Amount) {
			return false
		}
	}
	for _, c := range b {
		if !a.AmountOf(c.Denom).Equal(c.Amount) {
			return false
		}
	}
	return true
}

func coinsLTE(a, b sdk.Coins) bool {
	for _, c := range a {
		if c.Amount.GT(b.AmountOf(c.Denom)) {
			return false
		}
	}
	return true
}
