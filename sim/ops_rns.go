package main

import (
	sdk "github.com/cosmos/cosmos-sdk/types"

	rnstypes "github.com/jackalLabs/canine-chain/v4/x/rns/types"
)

func (w *World) resolveRnsOp(op Op) sdk.Msg {
	a := w.acct(int64(op.A))
	if a == nil {
		return nil
	}
	name := op.s("name")
	coin := func(k string) sdk.Coin {
		dn := op.s("denom")
		if dn == "" {
			dn = denom
		}
		v := op.n(k)
		if v < 0 {
			return sdk.Coin{Denom: dn, Amount: sdk.NewInt(v)}
		}
		return sdk.NewInt64Coin(dn, v)
	}
	switch op.K {
	case "rns_register":
		data := op.s("data")
		if data == "" {
			data = "{}"
		}
		return &rnstypes.MsgRegisterName{Creator: a.Bech, Name: name, Years: op.n("years"), Data: data, SetPrimary: op.n("primary") == 1}
	case "rns_register_old":
		return &rnstypes.MsgRegister{Creator: a.Bech, Name: name, Years: op.n("years"), Data: "{}"}
	case "rns_update":
		return &rnstypes.MsgUpdate{Creator: a.Bech, Name: name, Data: op.s("data")}
	case "rns_makeprimary":
		return &rnstypes.MsgMakePrimary{Creator: a.Bech, Name: name}
	case "rns_bid":
		return &rnstypes.MsgBid{Creator: a.Bech, Name: name, Bid: coin("amt")}
	case "rns_accept":
		f := w.acct(op.n("from"))
		if f == nil {
			return nil
		}
		return &rnstypes.MsgAcceptBid{Creator: a.Bech, Name: name, From: f.Bech}
	case "rns_cancel":
		return &rnstypes.MsgCancelBid{Creator: a.Bech, Name: name}
	case "rns_list":
		return &rnstypes.MsgList{Creator: a.Bech, Name: name, Price: coin("price")}
	case "rns_buy":
		return &rnstypes.MsgBuy{Creator: a.Bech, Name: name}
	case "rns_delist":
		return &rnstypes.MsgDelist{Creator: a.Bech, Name: name}
	case "rns_transfer":
		t := w.acct(op.n("to"))
		if t == nil {
			return nil
		}
		return &rnstypes.MsgTransfer{Creator: a.Bech, Name: name, Receiver: t.Bech}
	case "rns_addrecord":
		v := w.acct(op.nd("value", int64(op.A)))
		if v == nil {
			return nil
		}
		data := op.s("data")
		if data == "" {
			data = "{}"
		}
		return &rnstypes.MsgAddRecord{Creator: a.Bech, Name: name, Value: v.Bech, Data: data, Record: op.s("record")}
	case "rns_delrecord":
		return &rnstypes.MsgDelRecord{Creator: a.Bech, Name: name}
	case "rns_init":
		return &rnstypes.MsgInit{Creator: a.Bech}
	}
	return nil
}

func init() {
	opResolvers = append(opResolvers, func(w *World, op Op) sdk.Msg { return w.resolveRnsOp(op) })
}
