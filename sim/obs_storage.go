package main

import (
	"fmt"
	"strconv"

	sdk "github.com/cosmos/cosmos-sdk/types"
	"github.com/gogo/protobuf/proto"

	storagetypes "github.com/jackalLabs/canine-chain/v4/x/storage/types"
)

// storSnap is a snapshot of the storage module's file/proof/provider records,
// read through the keeper's public listing functions.
type storSnap struct {
	files  map[string]storagetypes.UnifiedFile
	proofs map[string]storagetypes.FileProof // by (prover,merkle,owner,start) key
	burns  map[string]int64
	provs  map[string]storagetypes.Providers
}

func fkey(merkle []byte, owner string, start int64) string {
	return fmt.Sprintf("%x/%s/%d", merkle, owner, start)
}
func pkey(prover string, merkle []byte, owner string, start int64) string {
	return prover + "|" + fkey(merkle, owner, start)
}

func readStor(w *World) storSnap {
	ctx := w.Ctx()
	k := w.node().app.StorageKeeper
	s := storSnap{files: map[string]storagetypes.UnifiedFile{}, proofs: map[string]storagetypes.FileProof{}, burns: map[string]int64{}, provs: map[string]storagetypes.Providers{}}
	for _, f := range k.GetAllFileByMerkle(ctx) {
		s.files[fkey(f.Merkle, f.Owner, f.Start)] = f
	}
	for _, p := range k.GetAllProofs(ctx) {
		s.proofs[pkey(p.Prover, p.Merkle, p.Owner, p.Start)] = p
	}
	for _, p := range k.GetAllProviders(ctx) {
		b, _ := strconv.ParseInt(p.BurnedContracts, 10, 64)
		s.burns[p.Address] = b
		s.provs[p.Address] = p
	}
	return s
}

// listedProvers returns the provers listed on a file (resolved through the
// file's own key function so the key format is not duplicated here).
func listedOn(f *storagetypes.UnifiedFile, candidates []string) map[string]bool {
	out := map[string]bool{}
	for _, c := range candidates {
		if f.ContainsProver(c) {
			out[c] = true
		}
	}
	return out
}

func (w *World) allBech() []string {
	out := make([]string, len(w.accts))
	for i, a := range w.accts {
		out[i] = a.Bech
	}
	return out
}

func nChunks(size, chunk int64) int64 {
	if size <= 0 || chunk <= 0 {
		return 0
	}
	return (size + chunk - 1) / chunk
}

// decodeResp extracts the i-th message response of a successful transaction.
func decodeResp(res []byte, i int, into proto.Message) bool {
	var tmd sdk.TxMsgData
	if err := proto.Unmarshal(res, &tmd); err != nil {
		return false
	}
	if i >= len(tmd.Data) {
		return false
	}
	return proto.Unmarshal(tmd.Data[i].Data, into) == nil
}

func isRewardHeight(w *World, h int64) bool {
	cw := w.storageParams().CheckWindow
	return cw > 0 && h%cw == 0
}
