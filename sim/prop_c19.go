package main

import (
	"bytes"
	"encoding/json"
	"fmt"
	"os"
	"sort"
	"strings"

	"github.com/cosmos/cosmos-sdk/store/rootmulti"
	storetypes "github.com/cosmos/cosmos-sdk/store/types"
	sdk "github.com/cosmos/cosmos-sdk/types"
	abci "github.com/tendermint/tendermint/abci/types"
	tmproto "github.com/tendermint/tendermint/proto/tendermint/types"
	dbm "github.com/tendermint/tm-db"

	"github.com/jackalLabs/canine-chain/v4/app"
	ftmodule "github.com/jackalLabs/canine-chain/v4/x/filetree"
	fttypes "github.com/jackalLabs/canine-chain/v4/x/filetree/types"
	mintmodule "github.com/jackalLabs/canine-chain/v4/x/jklmint"
	notifmodule "github.com/jackalLabs/canine-chain/v4/x/notifications"
	oraclemodule "github.com/jackalLabs/canine-chain/v4/x/oracle"
	rnsmodule "github.com/jackalLabs/canine-chain/v4/x/rns"
	storagemodule "github.com/jackalLabs/canine-chain/v4/x/storage"
	minttypes "github.com/jackalLabs/canine-chain/v4/x/jklmint/types"
	notiftypes "github.com/jackalLabs/canine-chain/v4/x/notifications/types"
	oracletypes "github.com/jackalLabs/canine-chain/v4/x/oracle/types"
	rnstypes "github.com/jackalLabs/canine-chain/v4/x/rns/types"
	storagetypes "github.com/jackalLabs/canine-chain/v4/x/storage/types"
)

// ---------------- C19: exporting and re-importing genesis preserves every custom module's state ----------------

var customModules = []string{storagetypes.ModuleName, rnstypes.ModuleName, fttypes.ModuleName, oracletypes.ModuleName, notiftypes.ModuleName, minttypes.ModuleName}

type genC19 struct {
	inner   *genAll
	exports map[int]bool
}

func (g *genC19) Config(rng *Rng, tier string) Config {
	g.inner = &genAll{reps: 0}
	c := g.inner.Config(rng, tier)
	nb := g.inner.NBlocks()
	g.exports = map[int]bool{}
	n := 1 + rng.Intn(3)
	for i := 0; i < n; i++ {
		g.exports[nb/3+rng.Intn(nb-nb/3)] = true
	}
	g.exports[nb-1] = true
	if rng.Chance(1, 3) {
		// an emission schedule that has bottomed out (or is about to) when the export happens
		c.Mint.TokensPerBlock = rng.Pick64(0, 3, 10, 40)
		c.Mint.MintDecrease = rng.Pick64(blocksPerYear, 2*blocksPerYear)
	}
	return c
}

func (g *genC19) NBlocks() int { return g.inner.NBlocks() }

func (g *genC19) Block(w *World, b int) Block {
	blk := g.inner.Block(w, b)
	if w.rng.Chance(1, 6) {
		blk.Steps = append(blk.Steps, txStep(mkOp("ft_postkey", 1+w.rng.Intn(4)).withS("key", fmt.Sprintf("pk%d", b))))
	}
	if w.rng.Chance(1, 10) {
		blk.Steps = append(blk.Steps, txStep(mkOp("oracle_create", 1+w.rng.Intn(4)).withS("name", fmt.Sprintf("feed%d", w.rng.Intn(3)))))
	}
	if w.rng.Chance(1, 10) {
		blk.Steps = append(blk.Steps, txStep(mkOp("oracle_update", 1+w.rng.Intn(4)).withS("name", fmt.Sprintf("feed%d", w.rng.Intn(3))).withS("data", fmt.Sprintf(`{"price":"0.%d"}`, 1+w.rng.Intn(9)))))
	}
	if g.exports[b] {
		blk.Export = true
	}
	return blk
}

func jsonDigest(v interface{}, err error) string {
	if err != nil {
		return "ERR:" + err.Error()
	}
	bz, e2 := json.Marshal(v)
	if e2 != nil {
		return "ERR:" + e2.Error()
	}
	return string(bz)
}

// recordQueries runs every record query of the six modules and returns path -> JSON.
func recordQueries(a *app.JackalApp, ctx sdk.Context, w *World, heights []int64) map[string]string {
	g := sdk.WrapSDKContext(ctx)
	out := map[string]string{}
	sk := a.StorageKeeper
	{
		r, err := sk.Params(g, &storagetypes.QueryParams{})
		out["storage:Params"] = jsonDigest(r, err)
	}
	files, ferr := sk.AllFiles(g, &storagetypes.QueryAllFiles{Pagination: bigPage()})
	if ferr == nil {
		out["storage:AllFiles"] = jsonDigest(files.Files, nil)
		for _, f := range files.Files {
			r, err := sk.File(g, &storagetypes.QueryFile{Merkle: f.Merkle, Owner: f.Owner, Start: f.Start})
			out["storage:File"] += jsonDigest(r, err)
			for _, a := range w.accts {
				if f.ContainsProver(a.Bech) {
					pr, err := sk.Proof(g, &storagetypes.QueryProof{ProviderAddress: a.Bech, Merkle: f.Merkle, Owner: f.Owner, Start: f.Start})
					out["storage:Proof"] += jsonDigest(pr, err)
				}
			}
		}
	} else {
		out["storage:AllFiles"] = "ERR:" + ferr.Error()
	}
	{
		r, err := sk.AllProofs(g, &storagetypes.QueryAllProofs{Pagination: bigPage()})
		if err == nil {
			out["storage:AllProofs"] = jsonDigest(r.Proofs, nil)
		} else {
			out["storage:AllProofs"] = "ERR"
		}
		r2, err := sk.AllProviders(g, &storagetypes.QueryAllProviders{Pagination: bigPage()})
		if err == nil {
			out["storage:AllProviders"] = jsonDigest(r2.Providers, nil)
		}
		r3, err := sk.AllAttestations(g, &storagetypes.QueryAllAttestations{Pagination: bigPage()})
		if err == nil {
			out["storage:AllAttestations"] = jsonDigest(r3.Attestations, nil)
		}
		r4, err := sk.AllReports(g, &storagetypes.QueryAllReports{Pagination: bigPage()})
		if err == nil {
			out["storage:AllReports"] = jsonDigest(r4.Reports, nil)
		}
		r5, err := sk.AllStoragePaymentInfo(g, &storagetypes.QueryAllStoragePaymentInfo{Pagination: bigPage()})
		if err == nil {
			out["storage:AllStoragePaymentInfo"] = jsonDigest(r5.StoragePaymentInfo, nil)
		}
		r6, err := sk.Gauges(g, &storagetypes.QueryAllGauges{Pagination: bigPage()})
		if err == nil {
			out["storage:Gauges"] = jsonDigest(r6.Gauges, nil)
		}
		out["storage:Collateral(export)"] = jsonDigest(sk.GetAllCollateral(ctx), nil)
	}
	for _, ac := range w.accts {
		r, err := sk.StoragePaymentInfo(g, &storagetypes.QueryStoragePaymentInfo{Address: ac.Bech})
		out["storage:StoragePaymentInfo"] += jsonDigest(r, err)
		r2, err := sk.ProofsByAddress(g, &storagetypes.QueryProofsByAddress{ProviderAddress: ac.Bech, Pagination: bigPage()})
		if err == nil {
			out["storage:ProofsByAddress"] += jsonDigest(r2.Proofs, nil)
		}
		r3, err := sk.Provider(g, &storagetypes.QueryProvider{Address: ac.Bech})
		out["storage:Provider"] += jsonDigest(r3, err)
	}
	rk := a.RnsKeeper
	{
		r, err := rk.Params(g, &rnstypes.QueryParams{})
		out["rns:Params"] = jsonDigest(r, err)
		n, err := rk.AllNames(g, &rnstypes.QueryAllNames{Pagination: bigPage()})
		if err == nil {
			out["rns:AllNames"] = jsonDigest(n.Name, nil)
			for _, x := range n.Name {
				r, err := rk.Name(g, &rnstypes.QueryName{Name: x.Name + "." + x.Tld})
				out["rns:Name"] += jsonDigest(r, err)
			}
		}
		b, err := rk.AllBids(g, &rnstypes.QueryAllBids{Pagination: bigPage()})
		if err == nil {
			out["rns:AllBids"] = jsonDigest(b.Bids, nil)
		}
		f, err := rk.AllForSale(g, &rnstypes.QueryAllForSale{Pagination: bigPage()})
		if err == nil {
			out["rns:AllForSale"] = jsonDigest(f.ForSale, nil)
		}
		i, err := rk.AllInits(g, &rnstypes.QueryAllInits{Pagination: bigPage()})
		if err == nil {
			out["rns:AllInits"] = jsonDigest(i.Init, nil)
		}
		for _, ac := range w.accts {
			p, err := rk.PrimaryName(g, &rnstypes.QueryPrimaryName{Owner: ac.Bech})
			out["rns:PrimaryName"] += jsonDigest(p, err)
			l, err := rk.ListOwnedNames(g, &rnstypes.QueryListOwnedNames{Address: ac.Bech, Pagination: bigPage()})
			if err == nil {
				out["rns:ListOwnedNames"] += jsonDigest(l.Names, nil)
			}
		}
	}
	fk := a.FileTreeKeeper
	{
		r, err := fk.Params(g, &fttypes.QueryParams{})
		out["filetree:Params"] = jsonDigest(r, err)
		f, err := fk.AllFiles(g, &fttypes.QueryAllFiles{Pagination: bigPage()})
		if err == nil {
			out["filetree:AllFiles"] = jsonDigest(f.Files, nil)
		}
		p, err := fk.AllPubKeys(g, &fttypes.QueryAllPubKeys{Pagination: bigPage()})
		if err == nil {
			out["filetree:AllPubKeys"] = jsonDigest(p.PubKey, nil)
		}
	}
	ok := a.OracleKeeper
	{
		r, err := ok.Params(g, &oracletypes.QueryParams{})
		out["oracle:Params"] = jsonDigest(r, err)
		f, err := ok.AllFeeds(g, &oracletypes.QueryAllFeeds{Pagination: bigPage()})
		if err == nil {
			out["oracle:AllFeeds"] = jsonDigest(f.Feed, nil)
		}
	}
	nk := a.NotificationsKeeper
	{
		r, err := nk.Params(g, &notiftypes.QueryParams{})
		out["notifications:Params"] = jsonDigest(r, err)
		n, err := nk.AllNotifications(g, &notiftypes.QueryAllNotifications{Pagination: bigPage()})
		if err == nil {
			out["notifications:AllNotifications"] = jsonDigest(n.Notifications, nil)
		}
		for _, ac := range w.accts {
			x, err := nk.AllNotificationsByAddress(g, &notiftypes.QueryAllNotificationsByAddress{To: ac.Bech, Pagination: bigPage()})
			if err == nil {
				out["notifications:AllNotificationsByAddress"] += jsonDigest(x.Notifications, nil)
			}
			// the block list has no query of its own: it is observable through IsBlocked
			for _, bc := range w.accts {
				if nk.IsBlocked(ctx, ac.Bech, bc.Bech) {
					out["notifications:IsBlocked"] += ac.Bech + ">" + bc.Bech + ";"
				}
			}
		}
	}
	mk := a.MintKeeper
	{
		r, err := mk.Params(g, &minttypes.QueryParams{})
		out["jklmint:Params"] = jsonDigest(r, err)
		for i, h := range heights {
			r, err := mk.MintedTokens(g, &minttypes.QueryMintedTokens{Block: h})
			key := "jklmint:MintedTokens(past)"
			if i == len(heights)-1 {
				key = "jklmint:MintedTokens(latest)"
			}
			out[key] += jsonDigest(r, err)
		}
	}
	return out
}

func kvDump(a *app.JackalApp, module string) map[string][]byte {
	out := map[string][]byte{}
	rs, ok := a.CommitMultiStore().(*rootmulti.Store)
	if !ok {
		return out
	}
	st := rs.GetStoreByName(module)
	kv, ok := st.(storetypes.KVStore)
	if !ok || kv == nil {
		return out
	}
	it := kv.Iterator(nil, nil)
	defer it.Close()
	for ; it.Valid(); it.Next() {
		out[string(it.Key())] = append([]byte{}, it.Value()...)
	}
	return out
}

// kvClass names the record kind of a store key, fine enough that a known omission of one
// kind cannot hide the loss of another.
func kvClass(module, k string, height int64) string {
	switch module {
	case notiftypes.ModuleName:
		rest := strings.TrimPrefix(k, notiftypes.NotificationsKeyPrefix)
		if strings.Count(rest, "/") == 1 {
			return "Notification/(block-list entry)"
		}
		return "Notification/(notification)"
	case minttypes.ModuleName:
		if strings.Contains(k, "minted_at_") {
			if strings.HasSuffix(k, fmt.Sprintf("minted_at_%d", height)) {
				return "minted_at(latest)"
			}
			return "minted_at(past)"
		}
	}
	return keyClassPrefix(k)
}

func keyClassPrefix(k string) string {
	if i := strings.Index(k, "/value/"); i >= 0 {
		return k[:i+len("/value/")]
	}
	if i := strings.Index(k, "/"); i >= 0 {
		return k[:i+1]
	}
	if len(k) > 12 {
		return k[:12]
	}
	return k
}

// exportImportCheck is the injected fault "the chain is restarted from an exported genesis".
func (w *World) exportImportCheck() {
	src := w.node()
	var exported struct {
		state  []byte
		height int64
	}
	ok := w.safely("Export", func() {
		ex, err := src.app.ExportAppStateAndValidators(false, nil)
		if err != nil {
			w.Violate("C19:export-failed", "%v", err)
			return
		}
		exported.state, exported.height = ex.AppState, ex.Height
	})
	if !ok || exported.state == nil {
		w.aborted, w.stop = false, false // an export panic is judged by the oracle, the source chain is unaffected
		return
	}
	w.Fault("export_import")
	var gs app.GenesisState
	if err := json.Unmarshal(exported.state, &gs); err != nil {
		w.Violate("C19:export-unparseable", "%v", err)
		return
	}
	for _, m := range customModules {
		if err := app.ModuleBasics[m].ValidateGenesis(encCfg.Marshaler, encCfg.TxConfig, gs[m]); err != nil {
			w.Violate("C19:validate-failed:"+m, "exported %s genesis does not validate: %v", m, err)
		}
	}
	// record kinds present (probes)
	var sg storagetypes.GenesisState
	if encCfg.Marshaler.UnmarshalJSON(gs[storagetypes.ModuleName], &sg) == nil {
		probeIf := func(n string, c int) {
			if c > 0 {
				w.Probe("exported:" + n)
			}
		}
		probeIf("files", len(sg.FileList))
		probeIf("providers", len(sg.ProvidersList))
		probeIf("payment_infos", len(sg.PaymentInfoList))
		probeIf("collateral", len(sg.CollateralList))
		probeIf("attest_forms", len(sg.AttestForms))
		probeIf("report_forms", len(sg.ReportForms))
		probeIf("gauges", len(sg.PaymentGauges))
		np := 0
		for _, f := range sg.FileList {
			np += len(f.Proofs)
		}
		probeIf("files_with_provers", np)
	}
	var rg rnstypes.GenesisState
	if encCfg.Marshaler.UnmarshalJSON(gs[rnstypes.ModuleName], &rg) == nil {
		if len(rg.NamesList) > 0 {
			w.Probe("exported:names")
		}
		if len(rg.BidsList) > 0 {
			w.Probe("exported:bids")
		}
		if len(rg.ForSaleList) > 0 {
			w.Probe("exported:listings")
		}
		if len(rg.InitList) > 0 {
			w.Probe("exported:inits")
		}
	}
	var fg fttypes.GenesisState
	if encCfg.Marshaler.UnmarshalJSON(gs[fttypes.ModuleName], &fg) == nil {
		if len(fg.FilesList) > 0 {
			w.Probe("exported:filetree_entries")
		}
		if len(fg.PubKeyList) > 0 {
			w.Probe("exported:pubkeys")
		}
	}
	var og oracletypes.GenesisState
	if encCfg.Marshaler.UnmarshalJSON(gs[oracletypes.ModuleName], &og) == nil && len(og.FeedList) > 0 {
		w.Probe("exported:feeds")
	}
	var ng notiftypes.GenesisState
	if encCfg.Marshaler.UnmarshalJSON(gs[notiftypes.ModuleName], &ng) == nil && len(ng.Notifications) > 0 {
		w.Probe("exported:notifications")
	}
	// fresh chain from the export
	restored := newNode("X", dbm.NewMemDB(), "", 0)
	defer os.RemoveAll(restored.home)
	req := abci.RequestInitChain{Time: w.now, ChainId: chainID, ConsensusParams: consensusParams(w.cfg), Validators: []abci.ValidatorUpdate{},
		AppStateBytes: exported.state, InitialHeight: exported.height}
	importOK := true
	func() {
		defer func() {
			if r := recover(); r != nil {
				importOK = false
				w.Violate("C19:import-panic:"+normPanic(r), "InitChain from the exported genesis panicked: %v", r)
			}
		}()
		restored.app.InitChain(req)
	}()
	if !importOK {
		return
	}
	// (d) exporting the restored state again (same height as the source export) gives the same genesis
	hdrExp := tmproto.Header{ChainID: chainID, Height: w.height, Time: w.now}
	func() {
		defer func() {
			if r := recover(); r != nil {
				w.Violate("C19:reexport-panic:"+normPanic(r), "exporting the restored chain panicked: %v", r)
			}
		}()
		e1 := moduleExports(src.app, src.app.BaseApp.NewContext(true, hdrExp))
		e2 := moduleExports(restored.app, restored.app.BaseApp.NewContext(false, hdrExp))
		for _, m := range customModules {
			if !jsonEqual(e1[m], e2[m]) {
				list := firstDifferingList(e1[m], e2[m])
				w.Violate("C19:reexport-differs:"+m+":"+list, "module %s: exporting the restored chain gives a different genesis (%s)", m, list)
			}
		}
	}()
	restored.app.Commit()
	w.NonTrivial()
	// (b) record queries
	var heights []int64
	for h := w.cfg.InitialHeight; h <= w.height; h++ {
		heights = append(heights, h)
	}
	hdr := tmproto.Header{ChainID: chainID, Height: w.height, Time: w.now}
	a := recordQueries(src.app, src.app.BaseApp.NewContext(true, hdr), w, heights)
	b := recordQueries(restored.app, restored.app.BaseApp.NewContext(true, hdr), w, heights)
	var paths []string
	for p := range a {
		paths = append(paths, p)
	}
	sort.Strings(paths)
	for _, p := range paths {
		if a[p] != b[p] {
			mod := p[:strings.Index(p, ":")]
			w.Violate("C19:query-differs:"+mod+":"+p[len(mod)+1:], "after export/import at height %d the query %s answers differently:\n  source:   %.300s\n  restored: %.300s", w.height, p, a[p], b[p])
		}
	}
	// (c) KV pairs
	for _, m := range customModules {
		sk, rk := kvDump(src.app, m), kvDump(restored.app, m)
		var keys []string
		for k := range sk {
			keys = append(keys, k)
		}
		sort.Strings(keys)
		w.ProbeN("kv_pairs_compared", len(keys))
		for _, k := range keys {
			rv, ok := rk[k]
			if !ok {
				w.Violate("C19:kv-lost:"+m+":"+kvClass(m, k, w.height), "store %s: key %q exists on the source chain but not after import", m, k)
			} else if !bytes.Equal(rv, sk[k]) {
				w.Violate("C19:kv-altered:"+m+":"+kvClass(m, k, w.height), "store %s: key %q has a different value after import", m, k)
			}
		}
	}
}

// moduleExports runs the six modules' own ExportGenesis on a context.
func moduleExports(a *app.JackalApp, ctx sdk.Context) map[string][]byte {
	cdc := encCfg.Marshaler
	out := map[string][]byte{}
	out[storagetypes.ModuleName] = cdc.MustMarshalJSON(storagemodule.ExportGenesis(ctx, a.StorageKeeper))
	out[rnstypes.ModuleName] = cdc.MustMarshalJSON(rnsmodule.ExportGenesis(ctx, a.RnsKeeper))
	out[fttypes.ModuleName] = cdc.MustMarshalJSON(ftmodule.ExportGenesis(ctx, a.FileTreeKeeper))
	out[oracletypes.ModuleName] = cdc.MustMarshalJSON(oraclemodule.ExportGenesis(ctx, a.OracleKeeper))
	out[notiftypes.ModuleName] = cdc.MustMarshalJSON(notifmodule.ExportGenesis(ctx, a.NotificationsKeeper))
	out[minttypes.ModuleName] = cdc.MustMarshalJSON(mintmodule.ExportGenesis(ctx, a.MintKeeper))
	return out
}

func jsonEqual(a, b []byte) bool {
	var x, y interface{}
	if json.Unmarshal(a, &x) != nil || json.Unmarshal(b, &y) != nil {
		return bytes.Equal(a, b)
	}
	xb, _ := json.Marshal(x)
	yb, _ := json.Marshal(y)
	return bytes.Equal(xb, yb)
}

func firstDifferingList(a, b []byte) string {
	var x, y map[string]json.RawMessage
	if json.Unmarshal(a, &x) != nil || json.Unmarshal(b, &y) != nil {
		return "?"
	}
	for _, k := range sortedKeys(x) {
		if !jsonEqual(x[k], y[k]) {
			return k
		}
	}
	return "?"
}

type oracleC19 struct{ NopOracle }

func (o *oracleC19) OnPanic(w *World, phase, text, frame string) {
	if phase == "Export" {
		w.Violate("C19:export-panic:"+text, "exporting genesis at height %d panicked: %s (%s)", w.height, text, frame)
	}
}

func init() {
	register(&Property{
		ID:        "C19",
		NewGen:    func() Generator { return &genC19{} },
		NewOracle: func() Oracle { return &oracleC19{} },
		Runs:      map[string]int{"quick": 100, "thorough": 2500},
		Required: []string{"exported:files", "exported:files_with_provers", "exported:providers", "exported:payment_infos", "exported:collateral", "exported:attest_forms", "exported:report_forms", "exported:gauges",
			"exported:names", "exported:bids", "exported:listings", "exported:inits", "exported:filetree_entries", "exported:pubkeys", "exported:feeds", "exported:notifications"},
		Rule: "all-modules histories (storage mixed profile + name service + file tree + notifications + oracle feeds + pubkeys) with 2-4 export points per run after Commit; at each: export, validate the six custom sections, InitChain a fresh app from it, compare every record query, every KV pair of the six stores and the re-exported genesis; " +
			"non-trivial = an export was imported into a fresh chain and compared; distinct = distinct (message kind, outcome) sequences",
	})
}
