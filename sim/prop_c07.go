package main

import (
	"fmt"
	"math/big"

	sdk "github.com/cosmos/cosmos-sdk/types"
	abci "github.com/tendermint/tendermint/abci/types"

	storagetypes "github.com/jackalLabs/canine-chain/v4/x/storage/types"
)

// ---------------- C07: plan space accounting matches the files actually held ----------------

type c07Snap struct {
	plans map[string]storagetypes.StoragePaymentInfo
	foot  map[string]*big.Int // owner -> footprint of live plan-paid files (no int64 wrap-around)
	files map[string]bool
}

func c07Read(w *World) (c07Snap, error) {
	gctx := sdk.WrapSDKContext(w.Ctx())
	k := w.node().app.StorageKeeper
	s := c07Snap{plans: map[string]storagetypes.StoragePaymentInfo{}, foot: map[string]*big.Int{}, files: map[string]bool{}}
	pr, err := k.AllStoragePaymentInfo(gctx, &storagetypes.QueryAllStoragePaymentInfo{Pagination: bigPage()})
	if err != nil {
		return s, err
	}
	for _, p := range pr.StoragePaymentInfo {
		s.plans[p.Address] = p
	}
	owners := map[string]bool{}
	for a := range s.plans {
		owners[a] = true
	}
	for _, a := range w.accts {
		owners[a.Bech] = true
	}
	for _, ow := range sortedKeys(owners) {
		r, err := k.AllFilesByOwner(gctx, &storagetypes.QueryAllFilesByOwner{Owner: ow, Pagination: bigPage()})
		if err != nil {
			return s, err
		}
		for _, f := range r.Files {
			s.files[fkey(f.Merkle, f.Owner, f.Start)] = true
			if f.Expires == 0 && f.Owner == ow {
				if s.foot[ow] == nil {
					s.foot[ow] = new(big.Int)
				}
				s.foot[ow].Add(s.foot[ow], new(big.Int).Mul(big.NewInt(f.FileSize), big.NewInt(f.MaxProofs)))
			}
		}
	}
	return s, nil
}

type oracleC07 struct {
	NopOracle
	pre     c07Snap
	lastOp  string
	everUse bool
}

func (o *oracleC07) check(w *World, s c07Snap, where string) {
	gctx := sdk.WrapSDKContext(w.Ctx())
	k := w.node().app.StorageKeeper
	for _, a := range sortedKeys(s.plans) {
		p := s.plans[a]
		foot := s.foot[a]
		if foot == nil {
			foot = new(big.Int)
		}
		if big.NewInt(p.SpaceUsed).Cmp(foot) != 0 {
			w.Violate("C07:usage≠footprint:"+where, "account %s: plan reports %d bytes used, live plan-paid files total %s", a, p.SpaceUsed, foot)
		}
		if p.SpaceUsed < 0 {
			w.Violate("C07:usage-negative", "account %s: SpaceUsed=%d", a, p.SpaceUsed)
		}
		if p.SpaceUsed > p.SpaceAvailable {
			w.Violate("C07:usage>available", "account %s: used %d of %d", a, p.SpaceUsed, p.SpaceAvailable)
		}
		fr, err := k.GetClientFreeSpace(gctx, &storagetypes.QueryClientFreeSpace{Address: a})
		if err == nil && big.NewInt(fr.BytesFree).Cmp(new(big.Int).Sub(big.NewInt(p.SpaceAvailable), foot)) != 0 {
			w.Violate("C07:free-space-query:"+where, "account %s: free space query says %d, plan %d minus footprint %s", a, fr.BytesFree, p.SpaceAvailable, foot)
		}
		if p.SpaceUsed > 0 {
			o.everUse = true
		}
	}
}

func (o *oracleC07) BeforeStep(w *World, st *Step, msgs []sdk.Msg) {
	o.pre, _ = c07Read(w)
}

func (o *oracleC07) AfterStep(w *World, st *Step, msgs []sdk.Msg, res *abci.ResponseDeliverTx) {
	post, err := c07Read(w)
	if err != nil {
		w.Violate("C07:query-failed", "%v", err)
		return
	}
	where := "after " + shortKind(msgs)
	switch m := msgs[0].(type) {
	case *storagetypes.MsgDeleteFile:
		where = "after delete"
	case *storagetypes.MsgPostFile:
		where = "after post"
		if o.pre.files[fkey(m.Merkle, m.Creator, w.height)] {
			where = "same-block-repost"
			w.Probe("same_block_repost")
		}
	case *storagetypes.MsgBuyStorage:
		where = "after buy"
	}
	o.check(w, post, where)
	if pf, ok := msgs[0].(*storagetypes.MsgPostFile); ok && len(msgs) == 1 {
		if res.Code != 0 {
			w.Probe("post_failed")
			pp, had := o.pre.plans[pf.Creator]
			qp, has := post.plans[pf.Creator]
			if had != has || (had && pp.SpaceUsed != qp.SpaceUsed) || len(o.pre.files) != len(post.files) {
				w.Violate("C07:failed-post-changed-state", "failed PostFile by %s changed usage or the file set", pf.Creator)
			}
			if had && pp.SpaceUsed > 0 {
				w.Probe("failed_post_on_used_plan")
			}
		} else if pf.Expires == 0 {
			w.Probe("plan_post_ok")
			// a successful plan-paid post needs a live plan with room
			pp, had := o.pre.plans[pf.Creator]
			if !had {
				w.Violate("C07:post-without-plan", "plan-paid PostFile by %s succeeded without a storage plan", pf.Creator)
			} else {
				if pp.End.Before(w.now) {
					w.Violate("C07:post-on-expired-plan", "plan-paid PostFile by %s succeeded on a plan that ended %s (now %s)", pf.Creator, pp.End, w.now)
				}
				need := new(big.Int).Add(big.NewInt(pp.SpaceUsed), new(big.Int).Mul(big.NewInt(pf.FileSize), big.NewInt(pf.MaxProofs)))
				if need.Cmp(big.NewInt(pp.SpaceAvailable)) > 0 {
					w.Violate("C07:post-beyond-space", "plan-paid PostFile by %s of %d bytes succeeded with %d of %d used", pf.Creator, pf.FileSize*pf.MaxProofs, pp.SpaceUsed, pp.SpaceAvailable)
				}
			}
			w.NonTrivial()
		}
	}
	if _, ok := msgs[0].(*storagetypes.MsgDeleteFile); ok && res.Code == 0 && len(post.files) < len(o.pre.files) {
		w.Probe("delete_ok")
		if o.everUse {
			w.Probe("delete_on_used_plan")
		}
	}
}

func (o *oracleC07) BeforeBegin(w *World) { o.pre, _ = c07Read(w) }

func (o *oracleC07) AfterBegin(w *World, _ *abci.ResponseBeginBlock) {
	post, err := c07Read(w)
	if err != nil {
		return
	}
	where := "begin-block"
	if len(post.files) < len(o.pre.files) {
		where = "reward-drop"
		w.Probe("reward_drop")
		for a, f := range o.pre.foot {
			pf := post.foot[a]
			if pf == nil {
				pf = new(big.Int)
			}
			if f.Cmp(pf) > 0 {
				w.Probe("reward_drop_of_plan_file")
			}
		}
	}
	o.check(w, post, where)
}

func (o *oracleC07) AfterBlock(w *World) {
	s, err := c07Read(w)
	if err == nil {
		o.check(w, s, "commit")
		w.State(hashHex(fmt.Sprint(len(s.files)), fmt.Sprint(len(s.plans))))
	}
}

func init() {
	register(&Property{
		ID:        "C07",
		NewGen:    func() Generator { return &genStorage{profile: "usage"} },
		NewOracle: func() Oracle { return &oracleC07{} },
		Runs:      map[string]int{"quick": 400, "thorough": 10000},
		Required:  []string{"plan_post_ok", "post_failed", "failed_post_on_used_plan", "delete_on_used_plan", "reward_drop_of_plan_file", "same_block_repost"},
		Rule: "online-generated histories of 2-3 accounts buying/upgrading/renewing plans (also for each other), posting plan-paid and pay-once files with declared sizes from bytes to terabytes times replication 1-5 (beyond remaining space, without a plan, after plan expiry through clock jumps), same-block re-posts, deletions by owners and strangers, provers joining and abandoning so reward blocks drop prover-less files, swarm network faults; " +
			"non-trivial = at least one plan-paid post succeeded; distinct = distinct (message kind, outcome) sequences",
	})
}
