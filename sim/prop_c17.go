package main

import (
	"bytes"
	"fmt"

	sdk "github.com/cosmos/cosmos-sdk/types"
	abci "github.com/tendermint/tendermint/abci/types"

	storagetypes "github.com/jackalLabs/canine-chain/v4/x/storage/types"
)

// ---------------- C17: file indexes and prover lists stay mutually consistent ----------------

type oracleC17 struct {
	NopOracle
	writers map[string]bool
}

func (o *oracleC17) Start(w *World) { o.writers = map[string]bool{}; o.check(w, "genesis") }

func (o *oracleC17) check(w *World, where string) {
	ctx := w.Ctx()
	gctx := sdk.WrapSDKContext(ctx)
	k := w.node().app.StorageKeeper
	byM, err := k.AllFiles(gctx, &storagetypes.QueryAllFiles{Pagination: bigPage()})
	if err != nil {
		w.Violate("C17:query-failed:AllFiles", "%v", err)
		return
	}
	mset := map[string]storagetypes.UnifiedFile{}
	for _, f := range byM.Files {
		mset[fkey(f.Merkle, f.Owner, f.Start)] = f
	}
	if len(mset) != len(byM.Files) {
		w.Violate("C17:index-mismatch:duplicate", "%s: by-content listing returns %d rows for %d distinct files", where, len(byM.Files), len(mset))
	}
	// the by-owner listing: the module exposes it per owner; enumerate owners from both
	// listings and from every known account
	owners := map[string]bool{}
	for _, a := range w.accts {
		owners[a.Bech] = true
	}
	for _, f := range byM.Files {
		owners[f.Owner] = true
	}
	oset := map[string]storagetypes.UnifiedFile{}
	for _, f := range k.GetAllFileByOwner(ctx) {
		owners[f.Owner] = true
		oset[fkey(f.Merkle, f.Owner, f.Start)] = f
	}
	qset := map[string]storagetypes.UnifiedFile{}
	for _, ow := range sortedKeys(owners) {
		r, err := k.AllFilesByOwner(gctx, &storagetypes.QueryAllFilesByOwner{Owner: ow, Pagination: bigPage()})
		if err != nil {
			w.Violate("C17:query-failed:AllFilesByOwner", "%v", err)
			return
		}
		for _, f := range r.Files {
			qset[fkey(f.Merkle, f.Owner, f.Start)] = f
		}
	}
	cmp := func(name string, other map[string]storagetypes.UnifiedFile) {
		for fk, f := range mset {
			g, ok := other[fk]
			if !ok {
				w.Violate("C17:index-mismatch:only-by-merkle", "%s: file %s is in the by-content listing but not in %s", where, fk, name)
				continue
			}
			fb, _ := f.Marshal()
			gb, _ := g.Marshal()
			if !bytes.Equal(fb, gb) {
				w.Violate("C17:index-mismatch:content", "%s: file %s differs between the by-content listing and %s: %v vs %v", where, fk, name, f.Proofs, g.Proofs)
			}
		}
		for fk := range other {
			if _, ok := mset[fk]; !ok {
				w.Violate("C17:index-mismatch:only-by-owner", "%s: file %s is in %s but not in the by-content listing", where, fk, name)
			}
		}
	}
	cmp("the by-owner store", oset)
	cmp("the per-owner queries", qset)
	// point lookups and prover lists
	allProofs, err := k.AllProofs(gctx, &storagetypes.QueryAllProofs{Pagination: bigPage()})
	if err != nil {
		w.Violate("C17:query-failed:AllProofs", "%v", err)
		return
	}
	for _, fk := range sortedKeys(mset) {
		f := mset[fk]
		r, err := k.File(gctx, &storagetypes.QueryFile{Merkle: f.Merkle, Owner: f.Owner, Start: f.Start})
		if err != nil || fkey(r.File.Merkle, r.File.Owner, r.File.Start) != fk {
			w.Violate("C17:unreachable:File", "%s: file %s is listed but the File query does not return it (%v)", where, fk, err)
		}
		rm, err := k.AllFilesByMerkle(gctx, &storagetypes.QueryAllFilesByMerkle{Merkle: f.Merkle, Pagination: bigPage()})
		found := false
		if err == nil {
			for _, g := range rm.Files {
				if fkey(g.Merkle, g.Owner, g.Start) == fk {
					found = true
				}
			}
		}
		if !found {
			w.Violate("C17:unreachable:AllFilesByMerkle", "%s: file %s is not returned by AllFilesByMerkle", where, fk)
		}
		seen := map[string]bool{}
		for _, key := range f.Proofs {
			if seen[key] {
				w.Violate("C17:duplicate-prover", "%s: file %s lists prover key %q twice", where, fk, key)
			}
			seen[key] = true
			// the key must resolve to exactly one proof record that points back to this file
			var rec *storagetypes.FileProof
			for i := range allProofs.Proofs {
				p := &allProofs.Proofs[i]
				if f.MakeProofKey(p.Prover) == key && bytes.Equal(p.Merkle, f.Merkle) && p.Owner == f.Owner && p.Start == f.Start {
					rec = p
				}
			}
			if rec == nil {
				w.Violate("C17:dangling-proof-key", "%s: file %s lists %q but no proof record refers back to it", where, fk, key)
				continue
			}
			pr, err := k.Proof(gctx, &storagetypes.QueryProof{ProviderAddress: rec.Prover, Merkle: f.Merkle, Owner: f.Owner, Start: f.Start})
			if err != nil || pr.Proof.Prover != rec.Prover {
				w.Violate("C17:dangling-proof-key", "%s: proof record of %s on %s is not retrievable through the Proof query (%v)", where, rec.Prover, fk, err)
			}
			pa, err := k.ProofsByAddress(gctx, &storagetypes.QueryProofsByAddress{ProviderAddress: rec.Prover, Pagination: bigPage()})
			ok := false
			if err == nil {
				for _, p := range pa.Proofs {
					if bytes.Equal(p.Merkle, f.Merkle) && p.Owner == f.Owner && p.Start == f.Start {
						ok = true
					}
				}
			}
			if !ok {
				w.Violate("C17:dangling-proof-key", "%s: proof of %s on %s missing from ProofsByAddress", where, rec.Prover, fk)
			}
		}
		if f.MaxProofs >= 0 && int64(len(f.Proofs)) > f.MaxProofs {
			w.Violate("C17:over-replication", "%s: file %s lists %d provers, limit %d", where, fk, len(f.Proofs), f.MaxProofs)
		}
		if len(f.Proofs) >= 2 {
			w.Probe("file_with_2plus_provers")
		}
	}
	w.State(hashHex(fmt.Sprint(len(mset)), fmt.Sprint(len(allProofs.Proofs))))
}

func (o *oracleC17) AfterStep(w *World, st *Step, msgs []sdk.Msg, res *abci.ResponseDeliverTx) {
	o.check(w, "after "+shortKind(msgs))
	if res.Code == 0 {
		w.Probe("writer:" + shortKind(msgs))
		o.writers[shortKind(msgs)] = true
		if len(o.writers) >= 4 {
			w.NonTrivial()
		}
	}
}

func (o *oracleC17) AfterBegin(w *World, _ *abci.ResponseBeginBlock) {
	if isRewardHeight(w, w.height) {
		w.Probe("reward_block")
	}
	o.check(w, "begin-block")
}

func (o *oracleC17) AfterBlock(w *World) { o.check(w, "commit") }

func init() {
	register(&Property{
		ID:        "C17",
		NewGen:    func() Generator { return &genStorage{profile: "mixed"} },
		NewOracle: func() Oracle { return &oracleC17{} },
		Runs:      map[string]int{"quick": 300, "thorough": 8000},
		Required:  []string{"writer:MsgPostFile", "writer:MsgDeleteFile", "writer:MsgPostProof", "writer:MsgReport", "writer:MsgShutdownProvider", "reward_block", "file_with_2plus_provers"},
		Rule: "online-generated mixed storage histories exercising every writer of files and proofs (post, same-block re-post, delete, valid and invalid proofs, attest, report, provider shutdown, reward blocks) under swarm network faults; " +
			"non-trivial = at least four distinct writer message kinds succeeded in the run; distinct = distinct (message kind, outcome) sequences",
	})
}
