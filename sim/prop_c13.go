package main

import (
	"fmt"

	sdk "github.com/cosmos/cosmos-sdk/types"
	abci "github.com/tendermint/tendermint/abci/types"

	minttypes "github.com/jackalLabs/canine-chain/v4/x/jklmint/types"
)

// ---------------- C13: block emission non-increasing, non-negative, fully distributed ----------------

const blocksPerYear = int64(365 * 24 * 60 * 60 / 6)

type genC13 struct {
	nb   int
	net  *Net
}

func (g *genC13) Config(rng *Rng, tier string) Config {
	c := baseConfig(rng)
	c.NAccts = 5
	c.Mint.TokensPerBlock = rng.Pick64(0, 1, 2, 3, 10, 999, 4_200_000, 4_200_000)
	c.Mint.MintDecrease = rng.Pick64(0, 1, 6, 6, blocksPerYear/2, blocksPerYear-1, blocksPerYear, blocksPerYear+1, 3*blocksPerYear, 1000*blocksPerYear)
	s := rng.Pick64(0, 10, 33, 80, 80, 100)
	d := rng.Pick64(0, 8, 8, 33, 50)
	p := rng.Pick64(0, 12, 12, 34, 50)
	for s+d+p > 100 {
		switch {
		case p > 0:
			p = 100 - s - d
			if p < 0 {
				p = 0
			}
		default:
			d = 100 - s
		}
	}
	if rng.Chance(1, 4) { // exactly 100
		p = 100 - s - d
	}
	c.Mint.StakerRatio, c.Mint.DevGrantsRatio, c.Mint.StorageProviderRatio = s, d, p
	c.Mint.StorageStipendAddress = makeAcct(4).Bech
	c.NoValidator = rng.Chance(1, 4)
	c.InitialHeight = rng.Pick64(1, 1, 2, 1000)
	c.InvCheckPeriod = uint(rng.Pick64(0, 0, 1, 10))
	g.nb = 120 + rng.Intn(200)
	if tier == "thorough" {
		g.nb = 200 + rng.Intn(1200)
	}
	g.net = newNet(rng, []string{"crash_restart", "tx_dup", "out_of_gas"}, 3)
	return c
}

func (g *genC13) NBlocks() int { return g.nb }

func (g *genC13) Block(w *World, b int) Block {
	rng := w.rng
	blk := Block{DtNs: pickDt(rng, true)}
	var steps []Step
	if rng.Chance(1, 40) {
		n := map[string]int64{}
		strs := map[string]string{}
		switch rng.Intn(5) {
		case 4:
			strs["p:mint_denom"] = rng.PickS("ujwl", "ujkl", "uatom")
		case 0:
			n["mint_decrease"] = rng.Pick64(0, 6, blocksPerYear, 5*blocksPerYear)
		case 1:
			n["tokens_per_block"] = rng.Pick64(0, 5, 4_200_000)
		case 2, 3:
			// keep the three ratios within 100 in total (the property's quantifier)
			mp := w.node().app.MintKeeper.GetParams(w.Ctx())
			room := 100 - mp.StorageProviderRatio
			sr := rng.Range(0, room)
			n["staker_ratio"] = sr
			n["dev_grants_ratio"] = rng.Range(0, room-sr)
		}
		ps := Step{Kind: "param", S: map[string]string{"module": "mint"}, N: n}
		for k, v := range strs {
			ps.S[k] = v
		}
		if rng.Chance(1, 2) {
			ps.S["via"] = "gov"
		}
		steps = append(steps, ps)
	}
	if rng.Chance(1, 6) {
		steps = append(steps, txStep(mkOp("bank_send", 1+rng.Intn(3)).withN("to", int64(1+rng.Intn(3))).withN("amt", rng.Range(1, 1_000_000))))
	}
	if rng.Chance(1, 50) {
		steps = append(steps, Step{Kind: "crash", N: map[string]int64{"node": 0}})
	}
	blk.Steps = g.net.Apply(rng, b, len(w.nodes), steps)
	if rng.Chance(1, 60) {
		blk.Reimport = true // the chain is restarted from its own export; the emission schedule must carry over
	}
	return blk
}

type oracleC13 struct {
	NopOracle
	pre     Bal
	preSup  sdk.Int
	prevE   *sdk.Int
	params  minttypes.Params
	dn      string
	blocks  int
}

func (o *oracleC13) BeforeBegin(w *World) {
	o.pre = w.Balances()
	o.params = w.node().app.MintKeeper.GetParams(w.Ctx())
	o.dn = o.params.MintDenom
	if o.dn == "" {
		o.dn = denom
	}
	o.preSup = w.Supply(o.dn)
}

func (o *oracleC13) OnPanic(w *World, phase, text, frame string) {
	if phase == "BeginBlock" {
		w.Violate("C13:begin-block-panic:"+text, "begin-block of height %d panicked (%s at %s): the block's emission cannot be applied (params %+v)", w.height, text, frame, o.params)
	}
}

func (o *oracleC13) AfterBegin(w *World, _ *abci.ResponseBeginBlock) {
	initAddrs()
	post := w.Balances()
	e := w.Supply(o.dn).Sub(o.preSup)
	if o.dn != denom {
		w.Probe("emission_in_other_denom")
	}
	if e.IsNegative() {
		w.Violate("C13:emission-negative", "supply shrank by %s at height %d", e.Neg(), w.height)
		return
	}
	ratioSum := o.params.StakerRatio + o.params.DevGrantsRatio + o.params.StorageProviderRatio
	if ratioSum > 100 {
		o.prevE = nil
		return // outside the property's quantifier (the chain cannot pay out more than it minted)
	}
	if o.prevE != nil && e.GT(*o.prevE) {
		w.Violate("C13:emission-increased", "emission %s at height %d, previous block %s", e, w.height, *o.prevE)
	}
	share := func(r int64) sdk.Int { return e.MulRaw(r).QuoRaw(100) }
	delta := o.pre.Delta(post, o.dn)
	get := func(a string) sdk.Int {
		if d, ok := delta[a]; ok {
			return d
		}
		return sdk.ZeroInt()
	}
	dg, _ := devGrantsAddr()
	mintMod := moduleAddr(minttypes.ModuleName)
	stakers := get(addrFeeCollector).Add(get(addrDistr))
	expS, expD, expP := share(o.params.StakerRatio), share(o.params.DevGrantsRatio), share(o.params.StorageProviderRatio)
	// recipients may coincide (e.g. the stipend address could equal the dev grants account)
	exp := map[string]sdk.Int{}
	addTo := func(a string, v sdk.Int) {
		if cur, ok := exp[a]; ok {
			exp[a] = cur.Add(v)
		} else {
			exp[a] = v
		}
	}
	addTo("stakers", expS)
	addTo(dg, expD)
	addTo(o.params.StorageStipendAddress, expP)
	rem := e.Sub(expS).Sub(expD).Sub(expP)
	addTo(mintMod, rem)
	if !stakers.Equal(exp["stakers"]) {
		w.Violate("C13:share:stakers", "height %d emission %s: stakers' bucket received %s, expected %s (%d%%)", w.height, e, stakers, expS, o.params.StakerRatio)
	}
	if !get(dg).Equal(exp[dg]) {
		w.Violate("C13:share:devgrants", "height %d emission %s: developer grants received %s, expected %s (%d%%)", w.height, e, get(dg), exp[dg], o.params.DevGrantsRatio)
	}
	if a := o.params.StorageStipendAddress; a != dg && !get(a).Equal(exp[a]) {
		w.Violate("C13:share:stipend", "height %d emission %s: storage stipend received %s, expected %s (%d%%)", w.height, e, get(a), exp[a], o.params.StorageProviderRatio)
	}
	if !get(mintMod).Equal(exp[mintMod]) && mintMod != o.params.StorageStipendAddress {
		w.Violate("C13:module-kept≠remainder", "height %d emission %s: mint module kept %s, remainder is %s", w.height, e, get(mintMod), rem)
	}
	if ratioSum == 100 && rem.GTE(sdk.NewInt(3)) {
		w.Violate("C13:module-kept≠remainder", "ratios sum to 100 but remainder %s >= 3", rem)
	}
	allowed := map[string]bool{addrFeeCollector: true, addrDistr: true, dg: true, o.params.StorageStipendAddress: true, mintMod: true}
	for a, d := range delta {
		if !allowed[a] {
			w.Violate("C13:third-party-credited", "height %d: account %s moved by %s during begin-block", w.height, a, d)
		}
	}
	// the recorded emission is the emission
	r, err := w.node().app.MintKeeper.MintedTokens(sdk.WrapSDKContext(w.Ctx()), &minttypes.QueryMintedTokens{Block: w.height})
	if err != nil || !sdk.NewInt(r.Tokens).Equal(e) {
		w.Violate("C13:supply-delta≠emission", "height %d: supply grew by %s, MintedTokens query says %d (%v)", w.height, e, r.GetTokens(), err)
	}
	o.prevE = &e
	o.blocks++
	if e.IsZero() {
		w.Probe("emission_zero")
	}
	if e.IsPositive() {
		w.Probe("emission_positive")
	}
	if ratioSum == 100 {
		w.Probe("ratios_sum_100")
	}
	if o.blocks >= 100 {
		w.NonTrivial()
	}
	w.State(hashHex(e.String(), fmt.Sprint(ratioSum)))
}

func init() {
	register(&Property{
		ID:        "C13",
		NewGen:    func() Generator { return &genC13{} },
		NewOracle: func() Oracle { return &oracleC13{} },
		Runs:      map[string]int{"quick": 200, "thorough": 4000},
		Required:  []string{"emission_zero", "emission_positive", "ratios_sum_100"},
		Rule: "120-1400 consecutive simulated blocks per run under randomised mint parameters (tokens per block 0..4.2M, yearly decrease 0..1000x blocks-per-year so the per-block step is 0, fractional, 1 or many, three ratios with sum <= 100 incl. 0 and exactly 100), parameter changes, crash/restart and a little bank traffic; " +
			"non-trivial = at least 100 blocks judged; distinct = distinct (message kind, outcome) sequences plus parameter fingerprints",
	})
}
