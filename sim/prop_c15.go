package main

import (
	"fmt"

	sdk "github.com/cosmos/cosmos-sdk/types"
	banktypes "github.com/cosmos/cosmos-sdk/x/bank/types"
	abci "github.com/tendermint/tendermint/abci/types"

	storagetypes "github.com/jackalLabs/canine-chain/v4/x/storage/types"
)

// ---------------- C15: provider collateral fully backed, returned exactly once ----------------

type genC15 struct {
	net   *Net
	nProv int
	nb    int
}

func (g *genC15) Config(rng *Rng, tier string) Config {
	c := baseConfig(rng)
	g.nProv = 3 + rng.Intn(3)
	c.NAccts = g.nProv + 2
	c.Storage.CollateralPrice = rng.Pick64(2, 1000, 10_000_000_000, 10_000_000_000_000)
	c.Balance = 1_000_000_000_000_000
	if rng.Chance(1, 2) {
		c.PoorAccts = []int{1 + rng.Intn(g.nProv)}
		c.PoorBalance = c.Storage.CollateralPrice - 1
		if rng.Chance(1, 2) {
			c.PoorBalance = c.Storage.CollateralPrice + rng.Range(0, 5)
		}
	}
	c.InvCheckPeriod = uint(rng.Pick64(0, 0, 1, 5))
	g.net = newNet(rng, []string{"tx_dup", "tx_delay", "tx_reorder", "out_of_gas", "crash_restart", "tx_drop", "multi_msg"}, 4)
	g.nb = 25 + rng.Intn(30)
	if tier == "thorough" {
		g.nb = 30 + rng.Intn(60)
	}
	return c
}

func (g *genC15) NBlocks() int { return g.nb }

func (g *genC15) Block(w *World, b int) Block {
	rng := w.rng
	blk := Block{DtNs: pickDt(rng, true)}
	var steps []Step
	if rng.Chance(1, 8) {
		ps := Step{Kind: "param", S: map[string]string{"module": "storage"},
			N: map[string]int64{"collateralPrice": rng.Pick64(2, 3, 999, 1000, 5_000_000, 10_000_000_000, 20_000_000_000_000)}}
		if rng.Chance(1, 2) {
			ps.S["via"] = "gov"
		}
		steps = append(steps, ps)
	}
	k := rng.Intn(4)
	for i := 0; i < k; i++ {
		p := 1 + rng.Intn(g.nProv)
		switch rng.Weighted([]int{40, 35, 6, 6, 5, 8}) {
		case 0:
			steps = append(steps, txStep(mkOp("init_provider", p)))
		case 1:
			steps = append(steps, txStep(mkOp("shutdown_provider", p)))
		case 2: // atomic pair
			steps = append(steps, txStep(mkOp("init_provider", p), mkOp("shutdown_provider", p)))
		case 3: // second message fails: whole tx must roll back
			steps = append(steps, txStep(mkOp("shutdown_provider", p), mkOp("shutdown_provider", p)))
		case 4: // no_funds
			st := txStep(mkOp("drain", p).withN("to", int64(g.nProv+1)).withN("leave", rng.Pick64(0, 1, 999)))
			st.Fault = "no_funds"
			steps = append(steps, st)
		case 5:
			steps = append(steps, txStep(mkOp("bank_send", g.nProv+1).withN("to", int64(p)).withN("amt", rng.Pick64(1, 1000, 10_000_000_000, 10_000_000_000_000))))
		}
	}
	for i := range steps {
		if steps[i].Kind == "tx" && rng.Chance(1, 20) {
			if steps[i].N == nil {
				steps[i].N = map[string]int64{}
			}
			steps[i].N["upper"] = 1 // the same account, spelled in upper case
		}
	}
	blk.Steps = g.net.Apply(rng, b, len(w.nodes), steps)
	if len(w.nodes) == 1 && rng.Chance(1, 50) {
		blk.Reimport = true // restart of the whole chain from its own exported genesis
	}
	return blk
}

type c15State struct {
	bal   Bal
	recs  map[string]int64
	provs map[string]bool
	price int64
}

type oracleC15 struct {
	NopOracle
	pre c15State
	// price at which each live record was locked (shadow, to detect refunds at a later price)
	sawPriceChangeBetween bool
}

func c15Read(w *World) c15State {
	initAddrs()
	ctx := w.Ctx()
	k := w.node().app.StorageKeeper
	s := c15State{bal: w.Balances(), recs: map[string]int64{}, provs: map[string]bool{}, price: w.storageParams().CollateralPrice}
	for _, c := range k.GetAllCollateral(ctx) {
		s.recs[c.Address] = c.Amount
	}
	for _, p := range k.GetAllProviders(ctx) {
		s.provs[p.Address] = true
	}
	return s
}

func (o *oracleC15) invariant(w *World, s c15State, where string) {
	sum := sdk.ZeroInt()
	for _, v := range s.recs {
		sum = sum.Add(sdk.NewInt(v))
	}
	esc := s.bal.Of(addrCollateral, denom)
	if !esc.Equal(sum) {
		w.Violate("C15:escrow≠records:"+where, "escrow account holds %s, records sum to %s", esc, sum)
	}
}

func (o *oracleC15) Start(w *World)       { o.invariant(w, c15Read(w), "genesis") }
func (o *oracleC15) BeforeStep(w *World, st *Step, msgs []sdk.Msg) { o.pre = c15Read(w) }

func msgKinds(msgs []sdk.Msg) string {
	s := ""
	for i, m := range msgs {
		if i > 0 {
			s += "+"
		}
		s += sdk.MsgTypeURL(m)[len("/"):]
	}
	return s
}

func shortKind(msgs []sdk.Msg) string {
	if len(msgs) == 0 {
		return "none"
	}
	u := sdk.MsgTypeURL(msgs[0])
	for i := len(u) - 1; i >= 0; i-- {
		if u[i] == '.' {
			return u[i+1:]
		}
	}
	return u
}

func (o *oracleC15) AfterStep(w *World, st *Step, msgs []sdk.Msg, res *abci.ResponseDeliverTx) {
	post := c15Read(w)
	kind := shortKind(msgs)
	o.invariant(w, post, "after "+kind)
	if res.Code != 0 {
		// a failed transaction moves nothing
		if !o.pre.bal.Equal(post.bal) || !sameRecs(o.pre.recs, post.recs) || !sameSet(o.pre.provs, post.provs) {
			w.Violate("C15:failed-but-changed:"+kind, "tx failed (code %d %s) but balances/records changed", res.Code, res.Codespace)
		}
		// fault-free, clearly legal single messages that are rejected are counted (reach measure), not reported
		if st.Fault == "" && st.Gas == 0 && len(msgs) == 1 && st.Kind == "tx" {
			switch m := msgs[0].(type) {
			case *storagetypes.MsgInitProvider:
				if !o.pre.provs[m.Creator] && o.pre.bal.Of(canonAddr(m.Creator), denom).GTE(sdk.NewInt(o.pre.price)) {
					w.Probe("legal_init_rejected") // not a violation: the statement constrains successful registrations only
				}
			case *storagetypes.MsgShutdownProvider:
				if o.pre.provs[m.Creator] {
					w.Probe("legal_shutdown_rejected") // not a violation: the statement says what a shutdown returns, not when one must be granted
				}
			}
		}
		return
	}
	// success: replay the messages on the model
	exp := map[string]sdk.Int{} // expected ujkl delta per address
	add := func(a string, v sdk.Int) {
		if cur, ok := exp[a]; ok {
			exp[a] = cur.Add(v)
		} else {
			exp[a] = v
		}
	}
	recs := copyRecs(o.pre.recs)
	provs := copySet(o.pre.provs)
	balOf := func(a string) sdk.Int {
		v := o.pre.bal.Of(a, denom)
		if d, ok := exp[a]; ok {
			v = v.Add(d)
		}
		return v
	}
	for _, m := range msgs {
		switch m := m.(type) {
		case *storagetypes.MsgInitProvider:
			if provs[m.Creator] {
				// not a violation by itself: the statement constrains the accounting (debit = price, escrow =
				// sum of records), which is checked below and by the invariant
				w.Probe("init_by_registered_provider_accepted")
			}
			p := sdk.NewInt(o.pre.price)
			if balOf(canonAddr(m.Creator)).LT(p) {
				w.Violate("C15:init-debit≠price", "init by %s succeeded with balance %s below price %s", m.Creator, balOf(m.Creator), p)
				return
			}
			add(canonAddr(m.Creator), p.Neg())
			add(addrCollateral, p)
			recs[m.Creator] = o.pre.price
			provs[m.Creator] = true
			w.Probe("init_ok")
		case *storagetypes.MsgShutdownProvider:
			if !provs[m.Creator] {
				w.Violate("C15:stranger-refund", "shutdown by non-provider %s succeeded", m.Creator)
				return
			}
			if amt, ok := recs[m.Creator]; ok {
				add(canonAddr(m.Creator), sdk.NewInt(amt))
				add(addrCollateral, sdk.NewInt(amt).Neg())
				if amt != o.pre.price {
					w.Probe("refund_after_price_change")
				}
			}
			delete(recs, m.Creator)
			delete(provs, m.Creator)
			w.Probe("shutdown_ok")
		case *banktypes.MsgSend:
			for _, c := range m.Amount {
				if c.Denom == denom {
					add(m.FromAddress, c.Amount.Neg())
					add(m.ToAddress, c.Amount)
				}
			}
		default:
			return // not a message this profile judges
		}
	}
	got := o.pre.bal.Delta(post.bal, denom)
	for _, a := range unionKeys(exp, got) {
		e, g := exp[a], got[a]
		if e.IsNil() {
			e = sdk.ZeroInt()
		}
		if g.IsNil() {
			g = sdk.ZeroInt()
		}
		if !e.Equal(g) {
			cls := "C15:balance-delta:" + kind
			if _, isInit := msgs[0].(*storagetypes.MsgInitProvider); isInit && len(msgs) == 1 {
				cls = "C15:init-debit≠price"
			}
			if _, isSd := msgs[0].(*storagetypes.MsgShutdownProvider); isSd && len(msgs) == 1 {
				cls = "C15:refund≠recorded"
			}
			w.Violate(cls, "%s: account %s moved %s, expected %s", msgKinds(msgs), a, g, e)
			return
		}
	}
	if len(o.pre.bal.Delta(post.bal, denom2)) != 0 {
		w.Violate("C15:balance-delta:"+kind, "second denom moved")
	}
	if !sameRecs(recs, post.recs) {
		w.Violate("C15:records:"+kind, "collateral records after %s are %v, expected %v", msgKinds(msgs), post.recs, recs)
	}
	if !sameSet(provs, post.provs) {
		cls := "C15:provider-set:" + kind
		w.Violate(cls, "provider set after %s is %v, expected %v", msgKinds(msgs), keysOf(post.provs), keysOf(provs))
	}
	w.NonTrivial()
}

func (o *oracleC15) AfterBegin(w *World, _ *abci.ResponseBeginBlock) {
	o.invariant(w, c15Read(w), "begin-block")
}

func (o *oracleC15) AfterBlock(w *World) {
	s := c15Read(w)
	o.invariant(w, s, "commit")
	w.State(hashHex(fmt.Sprint(len(s.recs)), fmt.Sprint(len(s.provs)), fmt.Sprint(s.price)))
}

func sameRecs(a, b map[string]int64) bool {
	if len(a) != len(b) {
		return false
	}
	for k, v := range a {
		if w, ok := b[k]; !ok || w != v {
			return false
		}
	}
	return true
}
func sameSet(a, b map[string]bool) bool {
	if len(a) != len(b) {
		return false
	}
	for k := range a {
		if !b[k] {
			return false
		}
	}
	return true
}
func copyRecs(a map[string]int64) map[string]int64 {
	o := map[string]int64{}
	for k, v := range a {
		o[k] = v
	}
	return o
}
func copySet(a map[string]bool) map[string]bool {
	o := map[string]bool{}
	for k, v := range a {
		o[k] = v
	}
	return o
}
func keysOf(a map[string]bool) []string { return sortedKeys(a) }
func unionKeys(a, b map[string]sdk.Int) []string {
	m := map[string]bool{}
	for k := range a {
		m[k] = true
	}
	for k := range b {
		m[k] = true
	}
	return sortedKeys(m)
}

func init() {
	register(&Property{
		ID:        "C15",
		NewGen:    func() Generator { return &genC15{} },
		NewOracle: func() Oracle { return &oracleC15{} },
		Runs:      map[string]int{"quick": 400, "thorough": 12000},
		Required:  []string{"init_ok", "shutdown_ok", "refund_after_price_change"},
		Rule: "runs are generated online from the run PRNG (3-5 provider accounts, init/shutdown/re-init/atomic pairs, collateral price changes, drained accounts, swarm-selected network faults); " +
			"a run is non-trivial when at least one init or shutdown succeeded and was judged by the model; distinct = distinct fingerprints of the ordered (message kind, outcome code) sequence",
	})
}
