package main

import (
	sdk "github.com/cosmos/cosmos-sdk/types"
	abci "github.com/tendermint/tendermint/abci/types"
)

// ---------------- C06: state transitions are deterministic across nodes ----------------

// genAll is the all-modules workload: storage (mixed profile) + name service +
// file tree + notifications in every block. Used by C06 and C19.
type genAll struct {
	st   *genStorage
	rns  *genRns
	ft   *genC10
	nt   *genC18
	reps int
}

func (g *genAll) Config(rng *Rng, tier string) Config {
	g.st = &genStorage{profile: "mixed"}
	c := g.st.Config(rng, tier)
	g.rns, g.ft, g.nt = &genRns{}, &genC10{}, &genC18{}
	rc := g.rns.Config(rng, tier)
	_ = g.ft.Config(rng, tier)
	_ = g.nt.Config(rng, tier)
	g.rns.net.nextID, g.ft.net.nextID, g.nt.net.nextID = 1_000_000, 2_000_000, 3_000_000
	if c.NAccts < 9 {
		// the other workloads use accounts 1..6; keep the storage roles where they are
		c.NAccts = 9
	}
	// seeded names relative to this run's initial height
	for _, sn := range rc.SeedNames {
		sn.Expires = sn.Expires - rc.InitialHeight + c.InitialHeight
		if sn.Expires < 1 {
			sn.Expires = 1
		}
		c.SeedNames = append(c.SeedNames, sn)
	}
	c.Replicas = g.reps
	c.PoorAccts, c.PoorBalance = nil, 0
	return c
}

func (g *genAll) NBlocks() int { return g.st.NBlocks() }

func (g *genAll) Block(w *World, b int) Block {
	blk := g.st.Block(w, b)
	for _, sub := range []Generator{g.rns, g.ft, g.nt} {
		sb := sub.Block(w, b)
		blk.Steps = append(blk.Steps, sb.Steps...)
	}
	return blk
}

type oracleC06 struct {
	NopOracle
	paid4 bool
}

func (o *oracleC06) BeforeBegin(w *World) {}

func (o *oracleC06) AfterBegin(w *World, res *abci.ResponseBeginBlock) {
	if isRewardHeight(w, w.height) {
		w.Probe("reward_block_on_all_replicas")
		// count provers listed (they are paid in sorted order: the map the property worries about)
		n := map[string]bool{}
		for _, p := range readStor(w).proofs {
			n[p.Prover] = true
		}
		if len(n) >= 4 {
			w.Probe("reward_block_4plus_provers")
			w.NonTrivial()
		}
	}
}

func (o *oracleC06) AfterStep(w *World, st *Step, msgs []sdk.Msg, res *abci.ResponseDeliverTx) {
	w.Probe("tx_compared_on_replicas")
}

func (o *oracleC06) AfterBlock(w *World) {
	w.Probe("block_compared")
	if w.res.Faults["crash_restart"] > 0 {
		w.Probe("restart_happened")
	}
}

func init() {
	register(&Property{
		ID:        "C06",
		NewGen:    func() Generator { return &genAll{reps: 3} },
		NewOracle: func() Oracle { return &oracleC06{} },
		Runs:      map[string]int{"quick": 80, "thorough": 2400},
		Required:  []string{"reward_block_4plus_provers", "restart_happened", "tx_compared_on_replicas"},
		Rule: "all-modules workload (storage mixed profile + name service + file tree + notifications in every block) executed call by call on the primary and three independent replicas (own database, own process-local state), with PRNG-chosen crash/restart of any node mid-block; every BeginBlock event list, DeliverTx code/gas/data/events, EndBlock and AppHash is compared; thorough tier re-executes sampled schedules in fresh OS processes with other GOMAXPROCS; " +
			"non-trivial = a reward block with at least four listed provers ran on all replicas; distinct = distinct (message kind, outcome) sequences",
	})
}
