package main

import (
	"bytes"
	"fmt"
	"reflect"
	"sort"
	"strings"

	sdk "github.com/cosmos/cosmos-sdk/types"
	abci "github.com/tendermint/tendermint/abci/types"

	"github.com/jackalLabs/canine-chain/v4/wasmbinding"
	notiftypes "github.com/jackalLabs/canine-chain/v4/x/notifications/types"
	oracletypes "github.com/jackalLabs/canine-chain/v4/x/oracle/types"
	rnstypes "github.com/jackalLabs/canine-chain/v4/x/rns/types"
	storagetypes "github.com/jackalLabs/canine-chain/v4/x/storage/types"
)

// ---------------- oracle-module ops ----------------

func init() {
	opResolvers = append(opResolvers, func(w *World, op Op) sdk.Msg {
		a := w.acct(int64(op.A))
		if a == nil {
			return nil
		}
		switch op.K {
		case "oracle_create":
			return &oracletypes.MsgCreateFeed{Creator: a.Bech, Name: op.s("name")}
		case "oracle_update":
			return &oracletypes.MsgUpdateFeed{Creator: a.Bech, Name: op.s("name"), Data: op.s("data")}
		}
		return nil
	})
	stepHandlers["contract_post"] = contractPostStep
}

// customMsgTypes lists every registered custom-module message type URL.
func customMsgTypes() []string {
	var out []string
	for _, u := range encCfg.InterfaceRegistry.ListImplementations(sdk.MsgInterfaceProtoName) {
		if strings.HasPrefix(u, "/canine_chain.") {
			out = append(out, u)
		}
	}
	sort.Strings(out)
	return out
}

// msgTemplates returns one well-formed op per custom message type with creator v
// and, where the type has further address fields, account o in them.
func msgTemplates(v, o int) []Op {
	n := "victim.jkl"
	return []Op{
		mkOp("post_file", v).withN("file", 0).withN("max", 3),
		mkOp("post_proof", v).withN("file", 0).withS("mode", "honest"),
		mkOp("delete_file", v).withN("file", 0),
		mkOp("set_ip", v).withS("ip", "https://new.example.com"),
		mkOp("set_keybase", v).withS("keybase", "kb"),
		mkOp("set_space", v).withN("space", 1000),
		mkOp("init_provider", v).withS("ip", "https://p.example.com"),
		mkOp("shutdown_provider", v),
		mkOp("buy_storage", v).withN("for", int64(o)).withN("days", 30).withN("bytes", 1_000_000_000).withN("ref", int64(o)),
		mkOp("add_claimer", v).withN("target", int64(o)),
		mkOp("remove_claimer", v).withN("target", int64(o)),
		mkOp("req_attest", v).withN("file", 0),
		mkOp("attest", v).withN("file", 0).withN("prover", int64(o)),
		mkOp("req_report", v).withN("file", 0).withN("prover", int64(o)),
		mkOp("report", v).withN("file", 0).withN("prover", int64(o)),
		mkOp("rns_register_old", v).withS("name", "fresh.jkl").withN("years", 1),
		mkOp("rns_register", v).withS("name", "fresh2.jkl").withN("years", 1),
		mkOp("rns_bid", v).withS("name", n).withN("amt", 1000),
		mkOp("rns_accept", v).withS("name", n).withN("from", int64(o)),
		mkOp("rns_cancel", v).withS("name", n),
		mkOp("rns_list", v).withS("name", n).withN("price", 1000),
		mkOp("rns_buy", v).withS("name", n),
		mkOp("rns_delist", v).withS("name", n),
		mkOp("rns_transfer", v).withS("name", n).withN("to", int64(o)),
		mkOp("rns_addrecord", v).withS("name", n).withS("record", "www").withN("value", int64(o)),
		mkOp("rns_delrecord", v).withS("name", "www."+n),
		mkOp("rns_init", v),
		mkOp("rns_update", v).withS("name", n).withS("data", "{}"),
		mkOp("rns_makeprimary", v).withS("name", n),
		mkOp("ft_post", v).withN("acct", int64(v)).withS("parent", "s").withS("child", "x").withS("tracking", "tt").withN("editors", 1<<uint(v)),
		mkOp("ft_addviewers", v).withS("path", "s").withN("mask", 1<<uint(o)),
		mkOp("ft_postkey", v).withS("key", "pubkey"),
		mkOp("ft_delete", v).withS("path", "s/x"),
		mkOp("ft_rmviewers", v).withS("path", "s").withN("mask", 1<<uint(o)),
		mkOp("ft_provision", v).withS("tracking", "tr"),
		mkOp("ft_addeditors", v).withS("path", "s").withN("mask", 1<<uint(o)),
		mkOp("ft_rmeditors", v).withS("path", "s").withN("mask", 1<<uint(o)),
		mkOp("ft_reseteditors", v).withS("path", "s"),
		mkOp("ft_resetviewers", v).withS("path", "s"),
		mkOp("ft_chown", v).withS("path", "s").withN("newowner", int64(o)),
		mkOp("oracle_create", v).withS("name", "feedx"),
		mkOp("oracle_update", v).withS("name", "vfeed").withS("data", `{"price":"1"}`),
		mkOp("notif_create", v).withN("to", int64(o)).withS("contents", "{}"),
		mkOp("notif_delete", v).withN("from", int64(o)),
		mkOp("notif_block", v).withN("target", int64(o)),
	}
}

// substAddressField sets the k-th (1-based) bech32 address string field other
// than Creator to addr. Returns false when there is no such field.
func substAddressField(m sdk.Msg, k int, addr string) bool {
	v := reflect.ValueOf(m)
	if v.Kind() != reflect.Ptr {
		return false
	}
	v = v.Elem()
	idx := 0
	for i := 0; i < v.NumField(); i++ {
		f := v.Field(i)
		if f.Kind() != reflect.String || v.Type().Field(i).Name == "Creator" {
			continue
		}
		if _, err := sdk.AccAddressFromBech32(f.String()); err != nil {
			continue
		}
		idx++
		if idx == k {
			f.SetString(addr)
			return true
		}
	}
	return false
}

func upperCreator(m sdk.Msg) {
	v := reflect.ValueOf(m)
	if v.Kind() == reflect.Ptr {
		v = v.Elem()
	}
	f := v.FieldByName("Creator")
	if f.IsValid() && f.Kind() == reflect.String && f.CanSet() {
		f.SetString(strings.ToUpper(f.String()))
	}
}

// canonAddr re-encodes a bech32 address in its canonical (lower-case) spelling.
func canonAddr(a string) string {
	if x, err := sdk.AccAddressFromBech32(a); err == nil {
		return x.String()
	}
	return a
}

func creatorField(m sdk.Msg) string {
	v := reflect.ValueOf(m)
	if v.Kind() == reflect.Ptr {
		v = v.Elem()
	}
	f := v.FieldByName("Creator")
	if f.IsValid() && f.Kind() == reflect.String {
		return f.String()
	}
	return ""
}

// ---------------- generator ----------------

type genC11 struct {
	nb   int
	net  *Net
	perm []int
}

func (g *genC11) Config(rng *Rng, tier string) Config {
	c := baseConfig(rng)
	c.NAccts = 7 // 1 victim, 2 attacker, 3 other, 4.. extras
	c.Mint.StorageStipendAddress = makeAcct(6).Bech
	c.Storage.CollateralPrice = 1000
	c.Storage.AttestFormSize = 1
	c.Storage.AttestMinToPass = 1
	c.Storage.ProofWindow = rng.Range(3, 10)
	c.Storage.CheckWindow = rng.Range(3, 10)
	c.Files = []FileSpec{{Size: 200, DataSeed: rng.U64()}, {Size: 300, DataSeed: rng.U64()}}
	c.SeedNames = []SeedName{{Name: "victim", Tld: "jkl", Owner: 1, Expires: 50_000_000}, {Name: "attacker", Tld: "jkl", Owner: 2, Expires: 50_000_000}}
	g.nb = 14
	g.net = newNet(rng, nil, 1)
	return c
}

func (g *genC11) NBlocks() int { return g.nb }

func (g *genC11) Block(w *World, b int) Block {
	rng := w.rng
	blk := Block{DtNs: 6 * sec}
	add := func(st Step) { blk.Steps = append(blk.Steps, st) }
	const V, X, O = 1, 2, 3
	switch b {
	case 0: // give the handlers some state to act on
		for _, a := range []int{V, X, O, 4} {
			add(txStep(mkOp("init_provider", a).withS("ip", fmt.Sprintf("https://n%d.d%d.example", a, a))))
			add(txStep(mkOp("ft_provision", a).withS("tracking", fmt.Sprintf("t%d", a))))
		}
		add(txStep(mkOp("buy_storage", V).withN("days", 60).withN("bytes", 5_000_000_000)))
		add(txStep(mkOp("buy_storage", X).withN("days", 60).withN("bytes", 5_000_000_000)))
		add(txStep(mkOp("oracle_create", V).withS("name", "vfeed")))
		add(txStep(mkOp("oracle_create", X).withS("name", "xfeed")))
	case 1:
		add(txStep(mkOp("post_file", V).withN("file", 0).withN("max", 3)))
		add(txStep(mkOp("notif_create", O).withN("to", int64(V)).withS("contents", `{"a":1}`)))
		add(txStep(mkOp("notif_create", O).withN("to", int64(X)).withS("contents", `{"a":2}`)))
		add(txStep(mkOp("notif_block", V).withN("target", 4)))
		add(txStep(mkOp("rns_makeprimary", V).withS("name", "victim.jkl")))
	case 2:
		for _, a := range []int{V, X, O} {
			add(txStep(mkOp("post_proof", a).withN("file", 0).withS("mode", "honest")))
		}
	default:
		// part A: every message type, three legs, in PRNG order; part B: owner-only messages by non-owners
		tpls := msgTemplates(V, O)
		if g.perm == nil {
			g.perm = rng.Perm(len(tpls))
		}
		perm := g.perm
		per := (len(tpls) + g.nb - 4) / (g.nb - 3)
		lo := (b - 3) * per
		for i := lo; i < lo+per && i < len(tpls); i++ {
			op := tpls[perm[i]]
			legit := txStep(op)
			legit.Fault = "legit"
			forged := txStep(op)
			forged.Signer = X
			forged.Fault = "forged_creator"
			add(forged)
			for k := 1; k <= 3; k++ {
				f2 := txStep(op)
				f2.Signer = X
				f2.Fault = "forged_creator"
				f2.N = map[string]int64{"subst": int64(k), "subst_acct": X}
				add(f2)
			}
			co := txStep(op)
			co.CoSign = X + 1
			co.Fault = "cosigned"
			add(co)
			add(legit)
		}
		// part B
		switch rng.Intn(13) {
		case 11: // a rolled-back create+update of a feed name, then the real owner creates it, then the first account tries again
			nm := fmt.Sprintf("late%d", b)
			st := txStep(mkOp("oracle_create", X).withS("name", nm), mkOp("oracle_update", X).withS("name", nm).withS("data", `{"price":"1"}`),
				mkOp("bank_send", X).withN("to", 0).withN("amt", 9_000_000_000_000_000_000))
			st.Fault = "multi_msg"
			add(st)
			add(txStep(mkOp("oracle_create", V).withS("name", nm)))
			add(txStep(mkOp("oracle_update", X).withS("name", nm).withS("data", `{"price":"668"}`)))
		case 12: // two contracts in one block: the second names the first as creator
			add(Step{Kind: "contract_post", N: map[string]int64{"contract": X, "creator": X, "file": 0}})
			add(Step{Kind: "contract_post", N: map[string]int64{"contract": O, "creator": X, "file": 1}})
		case 9: // spelling variants of somebody else's feed name
			add(txStep(mkOp("oracle_create", X).withS("name", rng.PickS("VFeed", "vfeed ", " vfeed", "VFEED", "vfeed\t", "vfeed/"))))
		case 10:
			add(txStep(mkOp("oracle_update", X).withS("name", rng.PickS("VFeed", "vfeed ", "VFEED")).withS("data", `{"price":"667"}`)))
		case 0:
			add(txStep(mkOp("oracle_update", X).withS("name", "vfeed").withS("data", `{"price":"666"}`)))
		case 1:
			add(txStep(mkOp("notif_delete", X).withN("from", int64(O)).withN("inbox", int64(V))))
		case 2:
			add(txStep(mkOp("delete_file", X).withN("file", 0)))
		case 3:
			add(txStep(mkOp("rns_makeprimary", X).withS("name", "victim.jkl")))
		case 4:
			add(txStep(mkOp("shutdown_provider", X)))
		case 5:
			add(txStep(mkOp("notif_block", X).withN("target", int64(V))))
		case 6:
			add(Step{Kind: "contract_post", N: map[string]int64{"contract": X, "creator": V, "file": 0}})
		case 7:
			add(Step{Kind: "contract_post", N: map[string]int64{"contract": X, "creator": X, "file": 0}})
		case 8:
			add(txStep(mkOp("oracle_create", X).withS("name", "vfeed")))
		}
	}
	return blk
}

// contractPostStep exercises the CosmWasm custom-message binding directly: a
// contract may post storage files only in its own name.
func contractPostStep(w *World, st *Step) {
	c, cr := w.acct(st.N["contract"]), w.acct(st.N["creator"])
	f := w.fileInst(st.N["file"])
	if c == nil || cr == nil || f == nil {
		return
	}
	before := readStor(w)
	merkle, size := f.Merkle, int64(len(f.Data))
	act := func(n *Node) error {
		ctx, write := w.ctxOf(n).CacheContext()
		k := n.app.StorageKeeper
		msg := &storagetypes.MsgPostFile{Creator: cr.Bech, Merkle: merkle, FileSize: size, MaxProofs: 3, Note: "{}"}
		err := wasmbinding.PerformPostFile(&k, ctx, c.Addr, msg)
		if err == nil {
			write()
		}
		return err
	}
	w.journal = append(w.journal, func(n *Node) { _ = act(n) })
	for _, n := range w.nodes {
		err := act(n)
		if n == w.node() {
			if c.Bech != cr.Bech {
				w.Probe("contract_post_as_other_attempt")
				after := readStor(w)
				if err == nil || len(after.files) != len(before.files) {
					w.Violate("C11:contract-posted-as-other", "contract %s posted a storage file in the name of %s (err=%v)", c.Bech, cr.Bech, err)
				}
			} else {
				w.Probe("contract_post_own_name")
			}
		}
	}
}

// ---------------- oracle ----------------

type c11Res struct {
	provs  map[string]string
	collat map[string]int64
	feeds  map[string]string
	inbox  map[string]string // recipient -> digest
	blocks map[string]bool
	prim   map[string]string
	files  map[string]string // owner -> digest of its files
}

func c11Read(w *World) c11Res {
	ctx := w.Ctx()
	app := w.node().app
	r := c11Res{provs: map[string]string{}, collat: map[string]int64{}, feeds: map[string]string{}, inbox: map[string]string{}, blocks: map[string]bool{}, prim: map[string]string{}, files: map[string]string{}}
	for _, p := range app.StorageKeeper.GetAllProviders(ctx) {
		bz, _ := p.Marshal()
		r.provs[p.Address] = string(bz)
	}
	for _, c := range app.StorageKeeper.GetAllCollateral(ctx) {
		r.collat[c.Address] = c.Amount
	}
	for _, f := range app.OracleKeeper.GetAllFeeds(ctx) {
		r.feeds[f.Name] = f.Owner + "|" + f.Data
	}
	for _, n := range app.NotificationsKeeper.GetAllNotifications(ctx) {
		r.inbox[n.To] += fmt.Sprintf("%s/%d/%s;", n.From, n.Time, n.Contents)
	}
	for _, a := range w.accts {
		for _, b := range w.accts {
			if app.NotificationsKeeper.IsBlocked(ctx, a.Bech, b.Bech) {
				r.blocks[a.Bech+"|"+b.Bech] = true
			}
		}
		if n, ok := app.RnsKeeper.GetPrimaryName(ctx, a.Bech); ok {
			r.prim[a.Bech] = n.Name + "." + n.Tld
		}
	}
	for _, f := range app.StorageKeeper.GetAllFileByMerkle(ctx) {
		bz, _ := f.Marshal()
		r.files[f.Owner] += hashHex(string(bz)) + ";"
	}
	return r
}

type oracleC11 struct {
	NopOracle
	pre     c11Res
	preBal  Bal
	preSeq  map[string]uint64
	types   map[string]bool
	covered map[string]bool
}

func (o *oracleC11) Start(w *World) {
	o.types = map[string]bool{}
	o.covered = map[string]bool{}
	for _, u := range customMsgTypes() {
		o.types[u] = true
		if w.node().app.MsgServiceRouter().HandlerByTypeURL(u) == nil {
			w.Violate("C11:unroutable:"+u, "registered message type %s has no handler in the message service router", u)
		}
	}
	w.ProbeN("registered_msg_types", len(o.types))
	// the templates must cover every registered type, otherwise the check is incomplete
	have := map[string]bool{}
	for _, op := range msgTemplates(1, 3) {
		if m := w.resolveOp(op); m != nil {
			have[sdk.MsgTypeURL(m)] = true
		} else {
			have["unresolved:"+op.K] = true
		}
	}
	w.X["c11_template_kinds"] = len(msgTemplates(1, 3))
}

func (o *oracleC11) seqs(w *World) map[string]uint64 {
	m := map[string]uint64{}
	for _, a := range w.accts {
		_, s := w.acctInfo(a)
		m[a.Bech] = s
	}
	return m
}

func (o *oracleC11) BeforeStep(w *World, st *Step, msgs []sdk.Msg) {
	o.pre = c11Read(w)
	o.preBal = w.Balances()
	o.preSeq = o.seqs(w)
}

func sameMapExcept[V comparable](a, b map[string]V, except string) (bool, string) {
	for k, v := range a {
		if k == except {
			continue
		}
		if w, ok := b[k]; !ok || w != v {
			return false, k
		}
	}
	for k := range b {
		if k == except {
			continue
		}
		if _, ok := a[k]; !ok {
			return false, k
		}
	}
	return true, ""
}

func (o *oracleC11) AfterStep(w *World, st *Step, msgs []sdk.Msg, res *abci.ResponseDeliverTx) {
	if len(msgs) != 1 {
		return
	}
	m := msgs[0]
	url := sdk.MsgTypeURL(m)
	if !o.types[url] {
		return
	}
	short := shortKind(msgs)
	creator := creatorField(m)
	signerIdx := st.Signer
	if signerIdx < 0 {
		signerIdx = st.Ops[0].A
	}
	signer := w.accts[signerIdx].Bech
	postSeq := o.seqs(w)
	// exactly one required signer: the creator
	gs := m.GetSigners()
	if len(gs) != 1 || gs[0].String() != creator {
		w.Violate("C11:signers≠creator:"+short, "%s names creator %s but requires signatures of %v", url, creator, gs)
	}
	unchanged := func() bool {
		for a, s := range o.preSeq {
			if postSeq[a] != s {
				return false
			}
		}
		return o.preBal.Equal(w.Balances())
	}
	switch {
	case st.CoSign > 0:
		w.Probe("leg:cosigned")
		if res.Code == 0 || !unchanged() {
			w.Violate("C11:cosigned-accepted:"+short, "%s with creator %s was accepted with a second signature by %s (code %d)", url, creator, w.accts[st.CoSign-1].Bech, res.Code)
		}
	case signer != creator:
		w.Probe("leg:forged")
		field := "none"
		if k := st.N["subst"]; k > 0 {
			field = fmt.Sprintf("addr-field-%d", k)
		}
		if res.Code == 0 || !unchanged() {
			w.Violate("C11:forged-accepted:"+short+":"+field, "%s naming creator %s was accepted when signed only by %s (code %d, sequences %v -> %v)", url, creator, signer, res.Code, o.preSeq[signer], postSeq[signer])
		}
		post := c11Read(w)
		if !reflect.DeepEqual(o.pre, post) {
			w.Violate("C11:forged-accepted:"+short+":"+field, "forged %s changed module records", url)
		}
	default:
		w.Probe("leg:legit")
		o.covered[url] = true
		if postSeq[creator] != o.preSeq[creator]+1 {
			w.Violate("C11:creator-signed-rejected:"+short, "%s signed by its creator %s did not pass authentication (code %d %s: %s)", url, creator, res.Code, res.Codespace, res.Log)
		} else if res.Code == 6 && res.Codespace == "sdk" && strings.Contains(res.Log, "unrecognized") {
			w.Violate("C11:unroutable:"+short, "%s signed by its creator reached no handler: %s", url, res.Log)
		} else {
			w.NonTrivial()
		}
		// part B: owner-only message kinds touch only the creator's resource
		post := c11Read(w)
		chk := func(name string, ok bool, what string) {
			if !ok {
				w.Violate("C11:foreign-resource-changed:"+short+":"+name, "%s signed by %s changed the %s record of %s", url, creator, name, what)
			}
		}
		switch x := m.(type) {
		case *storagetypes.MsgSetProviderIP, *storagetypes.MsgSetProviderKeybase, *storagetypes.MsgSetProviderTotalSpace, *storagetypes.MsgAddClaimer,
			*storagetypes.MsgRemoveClaimer, *storagetypes.MsgInitProvider, *storagetypes.MsgShutdownProvider:
			ok, what := sameMapExcept(o.pre.provs, post.provs, creator)
			chk("provider", ok, what)
			ok, what = sameMapExcept(o.pre.collat, post.collat, creator)
			chk("collateral", ok, what)
			w.Probe("partB:provider")
		case *oracletypes.MsgCreateFeed, *oracletypes.MsgUpdateFeed:
			for name, v := range o.pre.feeds {
				if !strings.HasPrefix(v, creator+"|") && post.feeds[name] != v {
					chk("feed", false, name)
				}
			}
			for name, v := range post.feeds {
				if _, had := o.pre.feeds[name]; !had && !strings.HasPrefix(v, creator+"|") {
					chk("feed", false, name)
				}
			}
			w.Probe("partB:feed")
		case *notiftypes.MsgDeleteNotification:
			ok, what := sameMapExcept(o.pre.inbox, post.inbox, creator)
			chk("inbox", ok, what)
			w.Probe("partB:inbox")
		case *notiftypes.MsgBlockSenders:
			for k := range post.blocks {
				if !o.pre.blocks[k] && !strings.HasPrefix(k, creator+"|") {
					chk("block-list", false, k)
				}
			}
			for k := range o.pre.blocks {
				if !post.blocks[k] {
					chk("block-list", false, k)
				}
			}
			ok, what := sameMapExcept(o.pre.inbox, post.inbox, "")
			chk("inbox", ok, what)
			w.Probe("partB:block")
		case *rnstypes.MsgMakePrimary:
			ok, what := sameMapExcept(o.pre.prim, post.prim, creator)
			chk("primary-name", ok, what)
			w.Probe("partB:primary")
		case *storagetypes.MsgDeleteFile:
			ok, what := sameMapExcept(o.pre.files, post.files, creator)
			chk("storage-file", ok, what)
			w.Probe("partB:storage-file")
			_ = x
		}
	}
}

func (o *oracleC11) AfterBlock(w *World) {
	if w.blockIdx == w.maxBlockIdx() {
		for u := range o.types {
			if !o.covered[u] {
				w.Probe("uncovered_msg_type:" + u)
			}
		}
		if len(o.covered) == len(o.types) {
			w.Probe("all_msg_types_covered")
		}
	}
}

var _ = bytes.Equal

func init() {
	register(&Property{
		ID:        "C11",
		NewGen:    func() Generator { return &genC11{} },
		NewOracle: func() Oracle { return &oracleC11{} },
		Runs:      map[string]int{"quick": 64, "thorough": 1500},
		Required:  []string{"leg:legit", "leg:forged", "leg:cosigned", "all_msg_types_covered", "partB:provider", "partB:feed", "partB:inbox", "partB:block", "partB:primary", "partB:storage-file", "contract_post_as_other_attempt", "contract_post_own_name"},
		Rule: "every run sends every registered custom message type (enumerated at run time from the interface registry, each with a handler in the message service router) through the real ante handler in PRNG order in five legs: signed only by a foreign account (plain, and with each other address-typed field set to the forger), co-signed, and signed by its creator; plus owner-only messages replayed by non-owners and the wasm post-file binding called with a foreign creator; " +
			"non-trivial = a creator-signed message passed authentication and reached its handler; distinct = distinct (message kind, outcome) sequences",
	})
}
