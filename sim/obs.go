package main

import (
	"sort"

	sdk "github.com/cosmos/cosmos-sdk/types"
	"github.com/cosmos/cosmos-sdk/types/query"
	authtypes "github.com/cosmos/cosmos-sdk/x/auth/types"
	distrtypes "github.com/cosmos/cosmos-sdk/x/distribution/types"

	jtypes "github.com/jackalLabs/canine-chain/v4/types"
	mintkeeper "github.com/jackalLabs/canine-chain/v4/x/jklmint/keeper"
	storagetypes "github.com/jackalLabs/canine-chain/v4/x/storage/types"
)

// Bal is a snapshot of every account's balances (bech32 -> coins).
type Bal map[string]sdk.Coins

func (w *World) Balances() Bal {
	out := Bal{}
	for _, b := range w.node().app.BankKeeper.GetAccountsBalances(w.Ctx()) {
		out[b.Address] = b.Coins
	}
	return out
}

func (b Bal) Of(addr, dn string) sdk.Int {
	// balances are keyed by the canonical spelling; records may hold another spelling of the same account
	return b[canonAddr(addr)].AmountOf(dn)
}

// Delta returns after-before per address for one denom, only non-zero entries.
func (b Bal) Delta(after Bal, dn string) map[string]sdk.Int {
	out := map[string]sdk.Int{}
	for a, c := range b {
		d := after[a].AmountOf(dn).Sub(c.AmountOf(dn))
		if !d.IsZero() {
			out[a] = d
		}
	}
	for a, c := range after {
		if _, ok := b[a]; ok {
			continue
		}
		d := c.AmountOf(dn)
		if !d.IsZero() {
			out[a] = d
		}
	}
	return out
}

func (b Bal) Denoms(after Bal) []string {
	set := map[string]bool{}
	for _, c := range b {
		for _, x := range c {
			set[x.Denom] = true
		}
	}
	for _, c := range after {
		for _, x := range c {
			set[x.Denom] = true
		}
	}
	var out []string
	for k := range set {
		out = append(out, k)
	}
	sort.Strings(out)
	return out
}

func (b Bal) Equal(after Bal) bool {
	for _, dn := range b.Denoms(after) {
		if len(b.Delta(after, dn)) != 0 {
			return false
		}
	}
	return true
}

func (w *World) Supply(dn string) sdk.Int {
	return w.node().app.BankKeeper.GetSupply(w.Ctx(), dn).Amount
}

func moduleAddr(name string) string { return authtypes.NewModuleAddress(name).String() }

var (
	addrFeeCollector = ""
	addrDistr        = ""
	addrStorage      = ""
	addrCollateral   = ""
	addrPOL          = ""
)

func initAddrs() {
	if addrFeeCollector != "" {
		return
	}
	addrFeeCollector = moduleAddr(authtypes.FeeCollectorName)
	addrDistr = moduleAddr(distrtypes.ModuleName)
	addrStorage = moduleAddr(storagetypes.ModuleName)
	addrCollateral = moduleAddr(storagetypes.CollateralCollectorName)
	p, err := jtypes.GetPOLAccount()
	if err != nil {
		panic(err)
	}
	addrPOL = p.String()
}

func bigPage() *query.PageRequest { return &query.PageRequest{Limit: 1 << 30, CountTotal: true} }

func sortedIntKeys(m map[string]sdk.Int) []string {
	ks := make([]string, 0, len(m))
	for k := range m {
		ks = append(ks, k)
	}
	sort.Strings(ks)
	return ks
}

func devGrantsAddr() (string, error) {
	a, err := mintkeeper.GetDevGrantsAccount()
	if err != nil {
		return "", err
	}
	return a.String(), nil
}
