package main

import (
	"crypto/sha256"
	"encoding/hex"
	"fmt"
	"os"
	"runtime/debug"
	"strings"
	"time"

	"github.com/cosmos/cosmos-sdk/client/tx"
	cryptotypes "github.com/cosmos/cosmos-sdk/crypto/types"
	sdk "github.com/cosmos/cosmos-sdk/types"
	"github.com/cosmos/cosmos-sdk/types/tx/signing"
	authsign "github.com/cosmos/cosmos-sdk/x/auth/signing"
	abci "github.com/tendermint/tendermint/abci/types"
	tmproto "github.com/tendermint/tendermint/proto/tendermint/types"
	dbm "github.com/tendermint/tm-db"

	storagetypes "github.com/jackalLabs/canine-chain/v4/x/storage/types"
)

// Oracle is the per-property judge. All methods may call w.Violate.
type Oracle interface {
	Start(w *World)
	BeforeBegin(w *World)
	AfterBegin(w *World, res *abci.ResponseBeginBlock)
	BeforeStep(w *World, st *Step, msgs []sdk.Msg)
	AfterStep(w *World, st *Step, msgs []sdk.Msg, res *abci.ResponseDeliverTx)
	AfterBlock(w *World)
	OnPanic(w *World, phase, text, frame string)
}

// NopOracle can be embedded.
type NopOracle struct{}

func (NopOracle) Start(*World)                                                   {}
func (NopOracle) BeforeBegin(*World)                                             {}
func (NopOracle) AfterBegin(*World, *abci.ResponseBeginBlock)                    {}
func (NopOracle) BeforeStep(*World, *Step, []sdk.Msg)                            {}
func (NopOracle) AfterStep(*World, *Step, []sdk.Msg, *abci.ResponseDeliverTx)    {}
func (NopOracle) AfterBlock(*World)                                              {}
func (NopOracle) OnPanic(*World, string, string, string)                         {}

// Generator produces the blocks of a run online (it may look at the world at
// the start of the block). Everything it decides comes from w.rng.
type Generator interface {
	Config(rng *Rng, tier string) Config
	NBlocks() int
	Block(w *World, b int) Block
}

type FileInst struct {
	Spec   FileSpec
	Data   []byte
	Merkle []byte
	tree   []byte // exported tree json for the chunk size it was built with
	chunk  int64
	Chunks [][]byte
	// postings: every (owner,start) under which this content was posted
	Posts []Posting
}

type Posting struct {
	Owner int
	Start int64
}

type World struct {
	cfg      *Config
	accts    []*Acct
	nodes    []*Node
	initReq  abci.RequestInitChain
	height   int64 // height of current/last begun block
	now      time.Time
	hdr      tmproto.Header
	live     bool // deliverState exists on nodes
	inBlock  bool
	committed bool // at least one Commit happened
	blockIdx int
	stepIdx  int
	beginReq abci.RequestBeginBlock
	blockTxs [][]byte
	blkTokens []string
	patSet   map[string]bool
	crashAtEnd int // 1+node index to crash between EndBlock and Commit of the current block
	journal  []func(n *Node) // everything applied to the nodes in the current block, for replay after a crash
	stash    map[int][]byte
	files    []*FileInst
	res      *RunResult
	trace    []string
	blkHash  []string
	rng      *Rng
	oracle   Oracle
	fp       []string
	lastAppHash []byte
	stop     bool
	aborted  bool
	stateSet map[string]bool
	maxViol  int
	violCount map[string]int
	tainted  map[string]bool
	stateVer   uint64 // bumped whenever chain state may have changed (invalidates read caches)
	spCache    storagetypes.Params
	spCacheVer uint64
	spCacheOK  bool
	blockPreAnteFail bool
	nBlocks  int
	// scratch for oracles/generators
	X map[string]interface{}
}

func (w *World) node() *Node { return w.nodes[0] }
func (w *World) maxBlockIdx() int { return w.nBlocks - 1 }

func (w *World) Violate(class, format string, args ...interface{}) {
	if w.violCount == nil {
		w.violCount = map[string]int{}
	}
	w.violCount[class]++
	if w.violCount[class] > 2 {
		return // the same class again in this run: already recorded twice
	}
	v := Violation{Class: class, Block: w.blockIdx, Step: w.stepIdx, Height: w.height, Detail: fmt.Sprintf(format, args...)}
	w.res.Violations = append(w.res.Violations, v)
	if len(w.violCount) >= w.maxViol {
		w.stop = true
	}
}

func (w *World) Probe(name string) { w.res.Probes[name]++ }
func (w *World) ProbeN(name string, n int) { w.res.Probes[name] += n }
func (w *World) Fault(kind string) { w.res.Faults[kind]++ }
func (w *World) Token(t string)    { w.fp = append(w.fp, t) }
func (w *World) NonTrivial()       { w.res.NonTrivial = true }
func (w *World) State(fp string) {
	if !w.stateSet[fp] {
		w.stateSet[fp] = true
		w.res.States = append(w.res.States, fp)
	}
}

// Ctx returns a read context on the freshest state of the primary node.
func (w *World) Ctx() sdk.Context {
	return w.ctxOf(w.node())
}

func (w *World) touch() { w.stateVer++ }

func (w *World) ctxOf(n *Node) sdk.Context {
	if w.live {
		return n.app.BaseApp.NewContext(false, w.hdr)
	}
	return n.app.BaseApp.NewContext(true, w.hdr)
}

func newWorld(cfg *Config, orc Oracle, rng *Rng, res *RunResult) *World {
	initSDK()
	w := &World{cfg: cfg, oracle: orc, rng: rng, res: res, stash: map[int][]byte{}, stateSet: map[string]bool{}, maxViol: 24, X: map[string]interface{}{}}
	res.Faults = map[string]int{}
	res.Probes = map[string]int{}
	for i := 0; i < cfg.NAccts; i++ {
		w.accts = append(w.accts, makeAcct(i))
	}
	gs := buildGenesis(cfg, w.accts)
	w.initReq = initChainReq(cfg, gs)
	nn := 1 + cfg.Replicas
	for i := 0; i < nn; i++ {
		n := newNode(fmt.Sprintf("N%d", i), dbm.NewMemDB(), "", cfg.InvCheckPeriod)
		n.app.InitChain(w.initReq)
		w.nodes = append(w.nodes, n)
	}
	w.height = cfg.InitialHeight - 1
	if cfg.InitialHeight == 0 {
		w.height = 0
	}
	w.now = time.Unix(cfg.GenesisUnix, 0).UTC()
	w.hdr = tmproto.Header{ChainID: chainID, Height: w.height + 1, Time: w.now}
	w.live = true
	for _, fs := range cfg.Files {
		w.files = append(w.files, &FileInst{Spec: fs})
	}
	return w
}

func (w *World) close() {
	for _, n := range w.nodes {
		_ = os.RemoveAll(n.home)
	}
}

type panicInfo struct {
	text  string
	frame string
}

func topRepoFrame(stack string) string {
	lines := strings.Split(stack, "\n")
	for i := 0; i+1 < len(lines); i++ {
		l := lines[i]
		if strings.Contains(l, "canine-chain/v4/") && !strings.Contains(l, "verif/sim") {
			fn := strings.TrimSpace(l)
			if j := strings.Index(fn, "("); j > 0 {
				fn = fn[:j]
			}
			if k := strings.LastIndex(fn, "canine-chain/v4/"); k >= 0 {
				fn = fn[k+len("canine-chain/v4/"):]
			}
			return fn
		}
	}
	return "?"
}

func normPanic(r interface{}) string {
	s := fmt.Sprint(r)
	// strip digits so that distinct amounts do not create distinct classes
	var b strings.Builder
	lastDigit := false
	for _, c := range s {
		if c >= '0' && c <= '9' {
			if !lastDigit {
				b.WriteByte('#')
			}
			lastDigit = true
			continue
		}
		lastDigit = false
		b.WriteRune(c)
	}
	out := b.String()
	if len(out) > 80 {
		out = out[:80]
	}
	return out
}

// safely runs an ABCI call and reports a panic through the oracle.
func (w *World) safely(phase string, fn func()) (ok bool) {
	defer func() {
		if r := recover(); r != nil {
			st := string(debug.Stack())
			if os.Getenv("VERIF_DEBUG") != "" {
				fmt.Fprintf(os.Stderr, "PANIC in %s: %v\n%s\n", phase, r, st)
			}
			ok = false
			w.aborted = true
			w.stop = true
			w.Probe("abci_panic:" + phase)
			w.oracle.OnPanic(w, phase, normPanic(r), topRepoFrame(st))
		}
	}()
	fn()
	return true
}

func digestEvents(evs []abci.Event) string {
	h := sha256.New()
	for _, e := range evs {
		bz, _ := e.Marshal()
		h.Write(bz)
		h.Write([]byte{0xff})
	}
	return hex.EncodeToString(h.Sum(nil))[:16]
}

func digestTx(r *abci.ResponseDeliverTx) string {
	return fmt.Sprintf("c=%d/%s g=%d/%d d=%s e=%s", r.Code, r.Codespace, r.GasWanted, r.GasUsed, hashHex(string(r.Data)), digestEvents(r.Events))
}

func (w *World) diverge(what string, n *Node, a, b string) {
	kind := "peer"
	if strings.HasPrefix(n.name, "R") || strings.HasPrefix(w.node().name, "R") {
		kind = "restarted" // one of the two nodes compared went through a crash/restart
	}
	// Root cause bookkeeping for the known finding (DESIGN §5, C06): once a node reported a different
	// GasUsed for a transaction rejected before the ante handler, its block gas meter — which this
	// chain uses to seed proof challenges — differs too, and everything that node computes afterwards
	// may differ. Such follow-up divergences of that node get their own class.
	if w.tainted == nil {
		w.tainted = map[string]bool{}
	}
	if what == "gas-used-of-tx-rejected-before-ante" {
		if n == w.node() || (strings.HasPrefix(w.node().name, "R") && !strings.HasPrefix(n.name, "R")) {
			w.tainted["*primary"] = true // the primary is the node whose meter differs: every comparison is affected
		} else {
			w.tainted[n.name] = true
		}
	} else if w.tainted[n.name] || w.tainted["*primary"] {
		what = what + "-after-pre-ante-gas-divergence"
	}
	w.Violate("C06:diverge:"+what+":"+kind, "node %s differs from primary at height %d: %s vs %s", n.name, w.height, b, a)
}

// BeginBlock starts the next block dt after the previous one.
func (w *World) BeginBlock(dt time.Duration) bool {
	w.height++
	w.now = w.now.Add(dt)
	w.hdr = tmproto.Header{ChainID: chainID, Height: w.height, Time: w.now, AppHash: w.lastAppHash,
		ProposerAddress: valKey().PubKey().Address()}
	w.beginReq = abci.RequestBeginBlock{Header: w.hdr, LastCommitInfo: valCommitInfo(w.cfg)}
	w.blockTxs = nil
	w.blockPreAnteFail = false
	w.journal = nil
	w.blkHash = nil
	w.oracle.BeforeBegin(w)
	w.touch()
	var res0 abci.ResponseBeginBlock
	for i, n := range w.nodes {
		var res abci.ResponseBeginBlock
		n := n
		if !w.safely("BeginBlock", func() { res = n.app.BeginBlock(w.beginReq) }) {
			return false
		}
		if i == 0 {
			res0 = res
			w.live = true
			w.inBlock = true
		} else if a, b := digestEvents(res0.Events), digestEvents(res.Events); a != b {
			w.diverge("beginblock-events", n, a, b)
		}
	}
	w.blkHash = append(w.blkHash, "B:"+digestEvents(res0.Events))
	w.oracle.AfterBegin(w, &res0)
	return true
}

func (w *World) Deliver(bz []byte) *abci.ResponseDeliverTx {
	w.touch()
	var res0 abci.ResponseDeliverTx
	for i, n := range w.nodes {
		var res abci.ResponseDeliverTx
		n := n
		if !w.safely("DeliverTx", func() { res = n.app.DeliverTx(abci.RequestDeliverTx{Tx: bz}) }) {
			return nil
		}
		if i == 0 {
			res0 = res
		} else if a, b := digestTx(&res0), digestTx(&res); a != b {
			what := "tx-events"
			switch {
			case res0.Code != res.Code || res0.Codespace != res.Codespace:
				what = "tx-code"
			case res0.GasUsed != res.GasUsed && res0.GasWanted == 0 && res.GasWanted == 0 && res0.Code != 0:
				// rejected by stateless validation before the ante handler installed a gas meter:
				// GasUsed then reports whatever the block context's meter accumulated in BeginBlock
				what = "gas-used-of-tx-rejected-before-ante"
			case res0.GasUsed != res.GasUsed || res0.GasWanted != res.GasWanted:
				what = "tx-gas"
			case string(res0.Data) != string(res.Data):
				what = "tx-data"
			}
			if os.Getenv("VERIF_DEBUG") != "" {
				fmt.Fprintf(os.Stderr, "DIVERGE primary log: %s\n  node %s log: %s\n", res0.Log, n.name, res.Log)
			}
			w.diverge(what, n, a, b)
		}
	}
	w.blockTxs = append(w.blockTxs, bz)
	if res0.GasWanted == 0 && res0.Code != 0 {
		w.blockPreAnteFail = true // rejected before the ante handler (see diverge)
	}
	w.journal = append(w.journal, func(n *Node) { n.app.DeliverTx(abci.RequestDeliverTx{Tx: bz}) })
	w.blkHash = append(w.blkHash, "T:"+digestTx(&res0))
	w.res.Txs++
	if res0.Code == 0 {
		w.res.TxOK++
	}
	return &res0
}

func (w *World) EndBlockCommit() bool {
	w.touch()
	var e0 string
	for i, n := range w.nodes {
		var res abci.ResponseEndBlock
		n := n
		if !w.safely("EndBlock", func() { res = n.app.EndBlock(abci.RequestEndBlock{Height: w.height}) }) {
			return false
		}
		d := digestEvents(res.Events) + fmt.Sprintf("/v%d", len(res.ValidatorUpdates))
		for _, vu := range res.ValidatorUpdates {
			bz, _ := vu.Marshal()
			d += hashHex(string(bz))
		}
		if i == 0 {
			e0 = d
		} else if d != e0 {
			w.diverge("endblock", n, e0, d)
		}
	}
	w.blkHash = append(w.blkHash, "E:"+e0)
	w.journal = append(w.journal, func(n *Node) { n.app.EndBlock(abci.RequestEndBlock{Height: w.height}) })
	if w.crashAtEnd > 0 {
		// the process dies after EndBlock, before Commit: nothing of this block is durable
		w.crashRestart(w.crashAtEnd - 1)
		w.crashAtEnd = 0
		if w.stop {
			return false
		}
	}
	for i, n := range w.nodes {
		var res abci.ResponseCommit
		n := n
		if !w.safely("Commit", func() { res = n.app.Commit() }) {
			return false
		}
		if i == 0 {
			w.lastAppHash = res.Data
		} else if string(res.Data) != string(w.lastAppHash) {
			w.diverge("apphash", n, hex.EncodeToString(w.lastAppHash), hex.EncodeToString(res.Data))
		}
	}
	w.inBlock = false
	w.live = false
	w.committed = true
	w.touch()
	w.trace = append(w.trace, fmt.Sprintf("h=%d app=%s r=%s", w.height, hex.EncodeToString(w.lastAppHash)[:16], hashHex(w.blkHash...)))
	w.res.Blocks++
	return true
}

// crashRestart discards node i's process state and rebuilds it from its
// database; the block in progress is replayed from its start.
func (w *World) crashRestart(i int) {
	if i < 0 || i >= len(w.nodes) {
		return
	}
	old := w.nodes[i]
	_ = os.RemoveAll(old.home)
	name := old.name
	if !strings.HasPrefix(name, "R") {
		name = "R" + name
	}
	n := newNode(name, old.db, "", w.cfg.InvCheckPeriod)
	w.nodes[i] = n
	w.touch()
	if !w.committed {
		n.app.InitChain(w.initReq)
	}
	if n.app.LastBlockHeight() != 0 || w.committed {
		want := w.height
		if w.inBlock {
			want = w.height - 1
		}
		if got := n.app.LastBlockHeight(); got != want && w.committed {
			w.res.Err = fmt.Sprintf("restart: node came back at height %d, expected %d", got, want)
			w.stop = true
			return
		}
	}
	if w.inBlock {
		ok := w.safely("BeginBlock", func() { n.app.BeginBlock(w.beginReq) })
		if !ok {
			return
		}
		for _, act := range w.journal {
			act := act
			if !w.safely("DeliverTx", func() { act(n) }) {
				return
			}
		}
		if w.blockPreAnteFail && len(w.nodes) > 1 {
			// the replayed block contains a transaction rejected before the ante handler: in the fresh
			// process its GasUsed, and with it the block gas meter, differ from the first execution
			w.diverge("gas-used-of-tx-rejected-before-ante", n, "first execution", "replay after restart")
		}
	}
	w.Fault("crash_restart")
}

// ---- transactions ----

func (w *World) acctInfo(a *Acct) (num, seq uint64) {
	acc := w.node().app.AccountKeeper.GetAccount(w.Ctx(), a.Addr)
	if acc == nil {
		return 0, 0
	}
	return acc.GetAccountNumber(), acc.GetSequence()
}

// buildTx signs msgs with the given keys (deterministic: empty memo, no fee).
func (w *World) buildTx(msgs []sdk.Msg, gas uint64, signers ...*Acct) ([]byte, error) {
	gen := encCfg.TxConfig
	txb := gen.NewTxBuilder()
	if err := txb.SetMsgs(msgs...); err != nil {
		return nil, err
	}
	txb.SetGasLimit(gas)
	signMode := gen.SignModeHandler().DefaultMode()
	sigs := make([]signing.SignatureV2, len(signers))
	nums := make([]uint64, len(signers))
	seqs := make([]uint64, len(signers))
	for i, s := range signers {
		nums[i], seqs[i] = w.acctInfo(s)
		sigs[i] = signing.SignatureV2{PubKey: s.Priv.PubKey(), Data: &signing.SingleSignatureData{SignMode: signMode}, Sequence: seqs[i]}
	}
	if err := txb.SetSignatures(sigs...); err != nil {
		return nil, err
	}
	for i, s := range signers {
		sd := authsign.SignerData{ChainID: chainID, AccountNumber: nums[i], Sequence: seqs[i]}
		sig, err := tx.SignWithPrivKey(signMode, sd, txb, cryptotypes.PrivKey(s.Priv), gen, seqs[i])
		if err != nil {
			return nil, err
		}
		sigs[i] = sig
	}
	if err := txb.SetSignatures(sigs...); err != nil {
		return nil, err
	}
	return gen.TxEncoder()(txb.GetTx())
}

const defaultGas = 20_000_000

// resolveStep turns the ops of a step into messages and signed bytes.
func (w *World) resolveStep(st *Step) ([]sdk.Msg, []byte) {
	var msgs []sdk.Msg
	for _, op := range st.Ops {
		m := w.resolveOp(op)
		if m == nil {
			return nil, nil
		}
		msgs = append(msgs, m)
	}
	if len(msgs) == 0 {
		return nil, nil
	}
	for _, m := range msgs {
		applyMutations(m, st)
	}
	if st.N["upper"] == 1 {
		upperCreator(msgs[0]) // bech32 is case-insensitive: the all-upper-case spelling names the same account
		w.Fault("addr_respelling")
	}
	if k := st.N["subst"]; k > 0 {
		if sa := w.acct(st.N["subst_acct"]); sa != nil {
			substAddressField(msgs[0], int(k), sa.Bech)
		}
	}
	signer := st.Signer
	if signer < 0 {
		signer = st.Ops[0].A
	}
	if signer >= len(w.accts) {
		return nil, nil
	}
	gas := st.Gas
	if gas == 0 {
		gas = defaultGas
	}
	signers := []*Acct{w.accts[signer]}
	if st.CoSign > 0 && st.CoSign-1 < len(w.accts) {
		signers = append(signers, w.accts[st.CoSign-1])
	}
	bz, err := w.buildTx(msgs, gas, signers...)
	if err != nil {
		w.Probe("build_tx_error")
		return nil, nil
	}
	return msgs, bz
}

func (w *World) execStep(st *Step) {
	switch st.Kind {
	case "tx":
		msgs, bz := w.resolveStep(st)
		if bz == nil {
			w.Probe("unresolvable_step")
			return
		}
		w.deliverJudged(st, msgs, bz)
	case "prep":
		_, bz := w.resolveStep(st)
		if bz != nil {
			w.stash[st.ID] = bz
		}
	case "send":
		bz, ok := w.stash[st.ID]
		if !ok {
			return
		}
		txd, err := encCfg.TxConfig.TxDecoder()(bz)
		if err != nil {
			return
		}
		w.deliverJudged(st, txd.GetMsgs(), bz)
	case "crash":
		w.crashRestart(int(st.N["node"]))
	case "crash_end":
		w.crashAtEnd = 1 + int(st.N["node"])
	case "param":
		w.applyParam(st)
	default:
		if h, ok := stepHandlers[st.Kind]; ok {
			h(w, st)
		}
	}
}

var stepHandlers = map[string]func(w *World, st *Step){}

func (w *World) deliverJudged(st *Step, msgs []sdk.Msg, bz []byte) {
	w.oracle.BeforeStep(w, st, msgs)
	res := w.Deliver(bz)
	if res == nil {
		return
	}
	if st.Fault != "" {
		w.Fault(st.Fault)
	}
	k := st.Kind
	if len(st.Ops) > 0 {
		k = st.Ops[0].K
	}
	okc := "ok"
	if res.Code != 0 {
		okc = fmt.Sprintf("e%d", res.Code)
		if res.Codespace == "sdk" && res.Code == 11 {
			w.Fault("out_of_gas_fired")
		}
	}
	w.Token(k + ":" + okc)
	w.blkTokens = append(w.blkTokens, k+":"+okc+":"+st.Kind+":"+st.Fault)
	w.afterDeliverStorage(msgs, res.Code == 0)
	w.oracle.AfterStep(w, st, msgs, res)
}

func (w *World) execBlock(b *Block) {
	w.stepIdx = -1
	if !w.BeginBlock(time.Duration(b.DtNs)) {
		return
	}
	if b.DtNs == 0 {
		w.Fault("clock_zero")
	} else if b.DtNs > int64(time.Hour) {
		w.Fault("clock_jump")
	}
	for i := range b.Steps {
		if w.stop {
			break
		}
		w.stepIdx = i
		w.execStep(&b.Steps[i])
	}
	if w.aborted {
		return
	}
	w.stepIdx = len(b.Steps)
	if !w.EndBlockCommit() {
		return
	}
	w.oracle.AfterBlock(w)
	if len(w.blkTokens) > 0 {
		if w.patSet == nil {
			w.patSet = map[string]bool{}
		}
		pat := hashHex(w.blkTokens...)
		if !w.patSet[pat] {
			w.patSet[pat] = true
			w.res.BlockPatterns = append(w.res.BlockPatterns, pat)
		}
	}
	w.blkTokens = nil
	if b.Export {
		w.exportImportCheck()
	}
	if b.Reimport {
		w.restartFromExport()
	}
}

// runSchedule executes a schedule; with gen != nil blocks are generated online
// and appended to s.
func runSchedule(s *Schedule, gen Generator, orc Oracle, rng *Rng) *RunResult {
	res := &RunResult{Run: s.Run, Seed: s.Seed}
	w := newWorld(&s.Config, orc, rng, res)
	defer w.close()
	func() {
		defer func() {
			if r := recover(); r != nil {
				res.Err = fmt.Sprintf("machinery panic: %v\n%s", r, debug.Stack())
			}
		}()
		orc.Start(w)
		nb := len(s.Blocks)
		if gen != nil {
			nb = gen.NBlocks()
		}
		t0 := w.now
		w.nBlocks = nb
		for b := 0; b < nb && !w.stop; b++ {
			w.blockIdx = b
			if gen != nil {
				blk := gen.Block(w, b)
				s.Blocks = append(s.Blocks, blk)
			}
			w.execBlock(&s.Blocks[b])
		}
		res.SimTimeS = w.now.Sub(t0).Seconds()
	}()
	res.Fingerprint = hashHex(w.fp...)
	res.TraceDigest = hashHex(w.trace...)
	s.Trace = w.trace
	// fault-free = no network or process fault fired (clock variation, parameter changes and the
	// property-specific adversarial inputs are workload, not faults, for this count)
	ff := true
	for _, k := range []string{"tx_drop", "tx_dup", "tx_delay", "tx_reorder", "out_of_gas", "crash_restart", "multi_msg", "export_import"} {
		if res.Faults[k] > 0 {
			ff = false
		}
	}
	res.FaultFree = ff
	return res
}

// restartFromExport is the fault "the network is restarted from an exported genesis": the
// primary node's state is exported after Commit, a fresh node is initialised from it with
// InitialHeight = next height, and the run continues on that node. Only used by workloads whose
// property does not depend on record kinds the export is known to drop.
func (w *World) restartFromExport() {
	if len(w.nodes) != 1 || w.inBlock {
		return
	}
	src := w.node()
	var state []byte
	var height int64
	ok := w.safely("Export", func() {
		ex, err := src.app.ExportAppStateAndValidators(false, nil)
		if err == nil {
			state, height = ex.AppState, ex.Height
		}
	})
	if !ok || state == nil {
		w.aborted, w.stop = false, false
		return
	}
	n := newNode("X"+src.name, dbm.NewMemDB(), "", w.cfg.InvCheckPeriod)
	req := abci.RequestInitChain{Time: w.now, ChainId: chainID, ConsensusParams: consensusParams(w.cfg), Validators: []abci.ValidatorUpdate{},
		AppStateBytes: state, InitialHeight: height}
	good := true
	func() {
		defer func() {
			if r := recover(); r != nil {
				good = false
			}
		}()
		n.app.InitChain(req)
	}()
	if !good {
		_ = os.RemoveAll(n.home)
		w.Probe("reimport_failed")
		return
	}
	_ = os.RemoveAll(src.home)
	w.nodes[0] = n
	w.initReq = req
	w.committed = false
	w.live = true
	w.lastAppHash = nil
	w.hdr = tmproto.Header{ChainID: chainID, Height: w.height + 1, Time: w.now}
	w.touch()
	w.Fault("restart_from_export")
}
