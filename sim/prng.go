package main

// Self-contained PRNG: splitmix64 for seeding, xoshiro256** for the stream.
// No math/rand, no dependence on the Go version. Every choice a run makes is
// drawn from one Rng, in a fixed order.

type Rng struct{ s [4]uint64 }

func splitmix64(x *uint64) uint64 {
	*x += 0x9e3779b97f4a7c15
	z := *x
	z = (z ^ (z >> 30)) * 0xbf58476d1ce4e5b9
	z = (z ^ (z >> 27)) * 0x94d049bb133111eb
	return z ^ (z >> 31)
}

func NewRng(seed uint64) *Rng {
	r := &Rng{}
	x := seed
	for i := range r.s {
		r.s[i] = splitmix64(&x)
	}
	return r
}

func rotl(x uint64, k uint) uint64 { return (x << k) | (x >> (64 - k)) }

func (r *Rng) U64() uint64 {
	res := rotl(r.s[1]*5, 7) * 9
	t := r.s[1] << 17
	r.s[2] ^= r.s[0]
	r.s[3] ^= r.s[1]
	r.s[1] ^= r.s[2]
	r.s[0] ^= r.s[3]
	r.s[2] ^= t
	r.s[3] = rotl(r.s[3], 45)
	return res
}

// Intn returns a value in [0,n). n must be > 0.
func (r *Rng) Intn(n int) int {
	if n <= 0 {
		panic("Intn: n<=0")
	}
	return int(r.U64() % uint64(n))
}

// Range returns a value in [lo,hi] inclusive.
func (r *Rng) Range(lo, hi int64) int64 {
	if hi < lo {
		lo, hi = hi, lo
	}
	span := uint64(hi-lo) + 1
	if span == 0 {
		return int64(r.U64())
	}
	return lo + int64(r.U64()%span)
}

// Chance returns true with probability num/den.
func (r *Rng) Chance(num, den int) bool { return r.Intn(den) < num }

func (r *Rng) Pick64(xs ...int64) int64 { return xs[r.Intn(len(xs))] }
func (r *Rng) PickS(xs ...string) string { return xs[r.Intn(len(xs))] }

// Weighted picks an index with probability proportional to w[i].
func (r *Rng) Weighted(w []int) int {
	t := 0
	for _, x := range w {
		t += x
	}
	if t <= 0 {
		return 0
	}
	v := r.Intn(t)
	for i, x := range w {
		if v < x {
			return i
		}
		v -= x
	}
	return len(w) - 1
}

func (r *Rng) Bytes(n int) []byte {
	b := make([]byte, n)
	for i := 0; i < n; i += 8 {
		v := r.U64()
		for j := 0; j < 8 && i+j < n; j++ {
			b[i+j] = byte(v >> (8 * uint(j)))
		}
	}
	return b
}

// Perm returns a permutation of [0,n).
func (r *Rng) Perm(n int) []int {
	p := make([]int, n)
	for i := range p {
		p[i] = i
	}
	for i := n - 1; i > 0; i-- {
		j := r.Intn(i + 1)
		p[i], p[j] = p[j], p[i]
	}
	return p
}

func fnv64(s string) uint64 {
	h := uint64(14695981039346656037)
	for i := 0; i < len(s); i++ {
		h ^= uint64(s[i])
		h *= 1099511628211
	}
	return h
}

// runSeed derives the seed of run i of property p from the batch seed.
func runSeed(batch uint64, prop string, i int) uint64 {
	x := batch ^ fnv64(prop) ^ (uint64(i) * 0x9e3779b97f4a7c15)
	return splitmix64(&x)
}
