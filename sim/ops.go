package main

import (
	"bytes"
	"encoding/json"
	"fmt"
	"reflect"
	"strings"

	govtypes "github.com/cosmos/cosmos-sdk/x/gov/types"
	paramproposal "github.com/cosmos/cosmos-sdk/x/params/types/proposal"

	paramtypes "github.com/cosmos/cosmos-sdk/x/params/types"

	sdk "github.com/cosmos/cosmos-sdk/types"
	banktypes "github.com/cosmos/cosmos-sdk/x/bank/types"
)

// resolveOp turns an intent into a concrete message against current chain state.
func (w *World) resolveOp(op Op) sdk.Msg {
	switch op.K {
	case "bank_send":
		a, t := w.acct(int64(op.A)), w.acct(op.n("to"))
		if a == nil || t == nil {
			return nil
		}
		dn := op.s("denom")
		if dn == "" {
			dn = denom
		}
		return &banktypes.MsgSend{FromAddress: a.Bech, ToAddress: t.Bech, Amount: sdk.NewCoins(sdk.NewInt64Coin(dn, op.n("amt")))}
	case "drain":
		// send (almost) everything the account owns to another account: the "no_funds" fault
		a, t := w.acct(int64(op.A)), w.acct(op.n("to"))
		if a == nil || t == nil {
			return nil
		}
		bal := w.node().app.BankKeeper.GetBalance(w.Ctx(), a.Addr, denom)
		left := sdk.NewInt(op.n("leave"))
		if !bal.Amount.GT(left) {
			return nil
		}
		return &banktypes.MsgSend{FromAddress: a.Bech, ToAddress: t.Bech, Amount: sdk.NewCoins(sdk.NewCoin(denom, bal.Amount.Sub(left)))}
	}
	for _, r := range opResolvers {
		if m := r(w, op); m != nil {
			return m
		}
	}
	return nil
}

var opResolvers = []func(w *World, op Op) sdk.Msg{
	func(w *World, op Op) sdk.Msg { return w.resolveStorageOp(op) },
}

// applyParam performs a governance parameter change on every node's deliver
// state (what a passed proposal does at a block boundary).
func (w *World) applyParam(st *Step) {
	if !w.inBlock {
		return
	}
	if st.S["via"] == "gov" {
		w.govParamChange(st)
		return
	}
	var act func(n *Node)
	switch st.S["module"] {
	case "storage":
		np := w.node().app.StorageKeeper.GetParams(w.Ctx())
		if !overlayJSON(&np, st.N) || np.Validate() != nil || !pairsValid(np.ParamSetPairs()) {
			return
		}
		act = func(n *Node) { n.app.StorageKeeper.SetParams(w.ctxOf(n), np) }
	case "mint":
		np := w.node().app.MintKeeper.GetParams(w.Ctx())
		if !overlayJSONs(&np, st.N, st.S) || np.Validate() != nil || !pairsValid(np.ParamSetPairs()) {
			return
		}
		act = func(n *Node) { n.app.MintKeeper.SetParams(w.ctxOf(n), np) }
	default:
		return
	}
	for _, n := range w.nodes {
		act(n)
	}
	w.touch()
	w.journal = append(w.journal, act)
	w.Fault("param_change")
}

// overlayJSON sets the JSON-named integer fields of v given in n.
func overlayJSONs(v interface{}, n map[string]int64, sv map[string]string) bool {
	if !overlayJSON(v, n) {
		return false
	}
	strs := map[string]string{}
	for k, x := range sv {
		if strings.HasPrefix(k, "p:") {
			strs[k[2:]] = x
		}
	}
	if len(strs) == 0 {
		return true
	}
	bz, err := json.Marshal(v)
	if err != nil {
		return false
	}
	var m map[string]json.RawMessage
	if json.Unmarshal(bz, &m) != nil {
		return false
	}
	for k, x := range strs {
		q, _ := json.Marshal(x)
		m[k] = q
	}
	bz, err = json.Marshal(m)
	if err != nil {
		return false
	}
	return json.Unmarshal(bz, v) == nil
}

func overlayJSON(v interface{}, n map[string]int64) bool {
	bz, err := json.Marshal(v)
	if err != nil {
		return false
	}
	dec := json.NewDecoder(bytes.NewReader(bz))
	dec.UseNumber()
	var m map[string]interface{}
	if err := dec.Decode(&m); err != nil {
		return false
	}
	for k, x := range n {
		m[k] = x
	}
	bz, err = json.Marshal(m)
	if err != nil {
		return false
	}
	return json.Unmarshal(bz, v) == nil
}

// pairsValid runs the module's own per-field validators (SetParams would panic otherwise).
func pairsValid(pairs paramtypes.ParamSetPairs) bool {
	for _, p := range pairs {
		if p.ValidatorFn == nil {
			continue
		}
		if err := p.ValidatorFn(reflect.Indirect(reflect.ValueOf(p.Value)).Interface()); err != nil {
			return false
		}
	}
	return true
}

var paramKeyOf = map[string]map[string]string{
	"storage": {"collateralPrice": "CollateralPrice", "attestMinToPass": "AttestMinToPass", "attestFormSize": "AttestFormSize", "proof_window": "ProofWindow",
		"price_per_tb_per_month": "PricePerTbPerMonth", "pol_ratio": "POLRatio", "referral_commission": "Referrals", "check_window": "CheckWindow", "chunk_size": "ChunkSize", "misses_to_burn": "MissesToBurn", "max_contract_age_in_blocks": "MaxContractAgeInBlocks"},
	"mint": {"mint_denom": "MintDenom", "mint_decrease": "MintIncrease", "tokens_per_block": "TokensPerBlock", "dev_grants_ratio": "DevGrants", "staker_ratio": "StakerRatio", "storage_provider_ratio": "ProviderRatio"},
}

var govSubspace = map[string]string{"storage": "storage", "mint": "jklmint"}

// govParamChange changes parameters the way a live chain does: a ParameterChangeProposal is
// submitted with its deposit and voted through by the validator's delegator (account 0) as two
// real transactions; the gov end-blocker executes it once the (1 microsecond) voting period is
// over, writing to the params subspace directly — not through the module keeper's SetParams.
func (w *World) govParamChange(st *Step) {
	mod := st.S["module"]
	keys, ok := paramKeyOf[mod]
	if !ok {
		return
	}
	var changes []paramproposal.ParamChange
	for _, k := range sortedKeys(st.N) {
		pk, has := keys[k]
		if !has {
			continue
		}
		changes = append(changes, paramproposal.NewParamChange(govSubspace[mod], pk, fmt.Sprintf("\"%d\"", st.N[k])))
	}
	for _, k := range sortedKeys(st.S) {
		if strings.HasPrefix(k, "p:") {
			if pk, has := keys[k[2:]]; has {
				q, _ := json.Marshal(st.S[k])
				changes = append(changes, paramproposal.NewParamChange(govSubspace[mod], pk, string(q)))
			}
		}
	}
	if len(changes) == 0 {
		return
	}
	content := paramproposal.NewParameterChangeProposal("verif", "simulated governance", changes)
	a := w.accts[0]
	sub, err := govtypes.NewMsgSubmitProposal(content, sdk.NewCoins(sdk.NewInt64Coin(denom, 10)), a.Addr)
	if err != nil {
		return
	}
	bz, err := w.buildTx([]sdk.Msg{sub}, defaultGas, a)
	if err != nil {
		return
	}
	res := w.Deliver(bz)
	if res == nil || res.Code != 0 {
		w.Probe("gov_submit_failed")
		return
	}
	var sr govtypes.MsgSubmitProposalResponse
	if !decodeResp(res.Data, 0, &sr) {
		return
	}
	vote := govtypes.NewMsgVote(a.Addr, sr.ProposalId, govtypes.OptionYes)
	bz, err = w.buildTx([]sdk.Msg{vote}, defaultGas, a)
	if err != nil {
		return
	}
	if r2 := w.Deliver(bz); r2 != nil && r2.Code == 0 {
		w.Fault("param_change_by_governance")
	}
}
