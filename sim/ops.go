package main

import (
	"bytes"
	"encoding/json"
	"reflect"

	paramtypes "github.com/cosmos/cosmos-sdk/x/params/types"

	sdk "github.com/cosmos/cosmos-sdk/types"
	banktypes "github.com/cosmos/cosmos-sdk/x/bank/types"
)

// resolveOp turns an intent into a concrete message against current chain state.
func (w *World) resolveOp(op Op) sdk.Msg {
	switch op.K {
	case "bank_send":
		a, t := w.acct(int64(op.A)), w.acct(op.n("to"))
		if a == nil || t == nil {
			return nil
		}
		dn := op.s("denom")
		if dn == "" {
			dn = denom
		}
		return &banktypes.MsgSend{FromAddress: a.Bech, ToAddress: t.Bech, Amount: sdk.NewCoins(sdk.NewInt64Coin(dn, op.n("amt")))}
	case "drain":
		// send (almost) everything the account owns to another account: the "no_funds" fault
		a, t := w.acct(int64(op.A)), w.acct(op.n("to"))
		if a == nil || t == nil {
			return nil
		}
		bal := w.node().app.BankKeeper.GetBalance(w.Ctx(), a.Addr, denom)
		left := sdk.NewInt(op.n("leave"))
		if !bal.Amount.GT(left) {
			return nil
		}
		return &banktypes.MsgSend{FromAddress: a.Bech, ToAddress: t.Bech, Amount: sdk.NewCoins(sdk.NewCoin(denom, bal.Amount.Sub(left)))}
	}
	for _, r := range opResolvers {
		if m := r(w, op); m != nil {
			return m
		}
	}
	return nil
}

var opResolvers = []func(w *World, op Op) sdk.Msg{
	func(w *World, op Op) sdk.Msg { return w.resolveStorageOp(op) },
}

// applyParam performs a governance parameter change on every node's deliver
// state (what a passed proposal does at a block boundary).
func (w *World) applyParam(st *Step) {
	if !w.inBlock {
		return
	}
	var act func(n *Node)
	switch st.S["module"] {
	case "storage":
		np := w.node().app.StorageKeeper.GetParams(w.Ctx())
		if !overlayJSON(&np, st.N) || np.Validate() != nil || !pairsValid(np.ParamSetPairs()) {
			return
		}
		act = func(n *Node) { n.app.StorageKeeper.SetParams(w.ctxOf(n), np) }
	case "mint":
		np := w.node().app.MintKeeper.GetParams(w.Ctx())
		if !overlayJSON(&np, st.N) || np.Validate() != nil || !pairsValid(np.ParamSetPairs()) {
			return
		}
		act = func(n *Node) { n.app.MintKeeper.SetParams(w.ctxOf(n), np) }
	default:
		return
	}
	for _, n := range w.nodes {
		act(n)
	}
	w.journal = append(w.journal, act)
	w.Fault("param_change")
}

// overlayJSON sets the JSON-named integer fields of v given in n.
func overlayJSON(v interface{}, n map[string]int64) bool {
	bz, err := json.Marshal(v)
	if err != nil {
		return false
	}
	dec := json.NewDecoder(bytes.NewReader(bz))
	dec.UseNumber()
	var m map[string]interface{}
	if err := dec.Decode(&m); err != nil {
		return false
	}
	for k, x := range n {
		m[k] = x
	}
	bz, err = json.Marshal(m)
	if err != nil {
		return false
	}
	return json.Unmarshal(bz, v) == nil
}

// pairsValid runs the module's own per-field validators (SetParams would panic otherwise).
func pairsValid(pairs paramtypes.ParamSetPairs) bool {
	for _, p := range pairs {
		if p.ValidatorFn == nil {
			continue
		}
		if err := p.ValidatorFn(reflect.Indirect(reflect.ValueOf(p.Value)).Interface()); err != nil {
			return false
		}
	}
	return true
}
