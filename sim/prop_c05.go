package main

import (
	"fmt"
	"math"
	"reflect"
	"strings"

	sdk "github.com/cosmos/cosmos-sdk/types"
	abci "github.com/tendermint/tendermint/abci/types"
)

// ---------------- C05: no valid transaction sequence can make block processing panic ----------------

var boundaryInts = []int64{0, 1, -1, 2, 3, 1023, 1024, 1025, math.MaxInt32, math.MaxInt32 + 1, math.MaxUint32, 1 << 62, math.MaxInt64, math.MaxInt64 - 1, math.MinInt64, math.MinInt64 + 1,
	1_000_000_000_000_000_000, 3_037_000_500, 4_294_967_296, -1024, 9_223_372_036_854_775, 14400, 5484530}

var boundaryStrings = []string{"", "/", "a/b", "{}", "[]", "null", "0", "-1", "ünïcødé", "\x00", " ", ".", "..jkl", "a.jkl", "A.JKL", "a..b.jkl", "x.ibc", "jkl", ".jkl", "{\"a\":1}",
	"https://", "http://a", "https://a.b.c.d:99999/p?q#f", "://", "1.2.3.4", strings.Repeat("z", 300), "1,2,3", ",", "\"", "{", "9999999999999999999999ujkl", "1ujkl,2uatom"}

// applyMutations overwrites fields of a resolved message as recorded in the step.
func applyMutations(m sdk.Msg, st *Step) {
	v := reflect.ValueOf(m)
	if v.Kind() != reflect.Ptr {
		return
	}
	v = v.Elem()
	for k, val := range st.N {
		switch {
		case strings.HasPrefix(k, "mutN."):
			f := v.FieldByName(k[5:])
			if f.IsValid() && f.CanSet() && f.Kind() == reflect.Int64 {
				f.SetInt(val)
			}
		case strings.HasPrefix(k, "mutC."):
			f := v.FieldByName(k[5:])
			if f.IsValid() && f.CanSet() {
				if c, ok := f.Interface().(sdk.Coin); ok {
					c.Amount = sdk.NewInt(val)
					f.Set(reflect.ValueOf(c))
				}
			}
		}
	}
	for k, val := range st.S {
		if strings.HasPrefix(k, "mutS.") {
			f := v.FieldByName(k[5:])
			if f.IsValid() && f.CanSet() {
				switch f.Kind() {
				case reflect.String:
					f.SetString(val)
				case reflect.Slice:
					if f.Type().Elem().Kind() == reflect.Uint8 {
						f.SetBytes([]byte(val))
					}
				}
			}
		}
	}
}

type genC05 struct {
	inner *genStorage
	nAcc  int
	giant bool // this run also stores files with declared sizes near MaxInt64 (paid for: the accounts are rich)
}

func (g *genC05) Config(rng *Rng, tier string) Config {
	g.inner = &genStorage{profile: "mixed"}
	c := g.inner.Config(rng, tier)
	g.nAcc = c.NAccts
	// parameters: anything the modules' own validators accept
	pick := func(lo int64) int64 {
		v := boundaryInts[rng.Intn(len(boundaryInts))]
		if v < lo {
			return lo
		}
		return v
	}
	// governance parameters stay inside sane ranges: the property is about user input, not about
	// absurd parameter sets (those are C13's / governance's business)
	if rng.Chance(1, 3) {
		switch rng.Intn(7) {
		case 0:
			c.Storage.ChunkSize = rng.Pick64(1, 2, 1024, 1<<20, 1<<40, math.MaxInt64)
		case 1:
			c.Storage.PricePerTbPerMonth = rng.Pick64(0, 1, 8, 1_000_000)
		case 2:
			c.Storage.AttestFormSize = rng.Pick64(0, 1, 5, 100)
			c.Storage.AttestMinToPass = rng.Pick64(0, 1, 3, 100)
		case 3:
			c.Storage.PolRatio = rng.Pick64(0, 5, 40, 100)
			c.Storage.ReferralCommission = rng.Range(0, 100-c.Storage.PolRatio)
		case 4:
			c.Storage.MaxContractAgeInBlocks, c.Storage.MissesToBurn = pick(0), pick(1)
		case 5:
			c.Storage.CollateralPrice = rng.Pick64(2, 1000, 10_000_000_000, 1_000_000_000_000_000)
		case 6:
			c.Mint.TokensPerBlock, c.Mint.MintDecrease = rng.Pick64(0, 1, 4_200_000, 1_000_000_000_000), rng.Pick64(0, 6, blocksPerYear, 1000*blocksPerYear)
		}
	}
	g.giant = rng.Chance(1, 2)
	c.Storage.CheckWindow = rng.Range(2, 6) // many reward blocks
	c.SeedNames = []SeedName{{Name: "victim", Tld: "jkl", Owner: 1, Expires: c.InitialHeight + 20}}
	if rng.Chance(1, 2) {
		c.SeedFeed = rng.PickS("0.20", "0", "-1", "0.000000000000000001", "99999999999999999999", "abc")
	}
	return c
}

func (g *genC05) NBlocks() int { return g.inner.NBlocks() }

func (g *genC05) Block(w *World, b int) Block {
	rng := w.rng
	blk := g.inner.Block(w, b)
	if g.giant && rng.Chance(1, 3) {
		u := g.inner.users[rng.Intn(len(g.inner.users))]
		f := rng.Intn(g.inner.nFiles)
		size := rng.Pick64(math.MaxInt64, math.MaxInt64, math.MaxInt64-1000, math.MaxInt64/2+7, math.MaxInt64/3)
		st := txStep(mkOp("post_file", u).withN("file", int64(f)).withN("max", 1).withN("size", size).withN("expires_in", rng.Pick64(14400, 15000, 30000)))
		st.Fault = "boundary_values"
		blk.Steps = append(blk.Steps, st)
	}
	if rng.Chance(1, 40) {
		// governance touches the emission schedule mid-run (values a proposal could plausibly carry)
		ps := Step{Kind: "param", S: map[string]string{"module": "mint"}, N: map[string]int64{
			"mint_decrease": rng.Pick64(0, 6, blocksPerYear, 2*blocksPerYear, 2_000_000*blocksPerYear, 10_000_000*blocksPerYear)}}
		if rng.Chance(1, 2) {
			ps.S["via"] = "gov"
		}
		blk.Steps = append([]Step{ps}, blk.Steps...)
	}
	if rng.Chance(1, 25) {
		// a parameter-change proposal carrying a small boundary value (-1, 0, 1) for one integer parameter goes
		// through real governance only: the modules' own validators decide whether it is ever stored, and
		// whatever they let through must not stop block processing
		mod, keys := "storage", []string{"check_window", "proof_window", "chunk_size", "misses_to_burn", "max_contract_age_in_blocks",
			"price_per_tb_per_month", "attestFormSize", "attestMinToPass", "collateralPrice"}
		if rng.Chance(1, 5) {
			mod, keys = "mint", []string{"tokens_per_block", "mint_decrease"}
		}
		ps := Step{Kind: "param", Fault: "boundary_values", S: map[string]string{"module": mod, "via": "gov"},
			N: map[string]int64{keys[rng.Intn(len(keys))]: rng.Pick64(-1, 0, 1)}}
		blk.Steps = append(blk.Steps, ps)
		w.Probe("gov_boundary_param_proposal")
	}
	n := rng.Intn(4)
	for i := 0; i < n; i++ {
		v := 1 + rng.Intn(g.nAcc-1)
		o := 1 + rng.Intn(g.nAcc-1)
		tpls := msgTemplates(v, o)
		op := tpls[rng.Intn(len(tpls))]
		st := txStep(op)
		st.Fault = "boundary_values"
		st.N = map[string]int64{}
		st.S = map[string]string{}
		m := w.resolveOp(op)
		if m == nil {
			continue
		}
		rv := reflect.ValueOf(m).Elem()
		var numF, strF, coinF []string
		for fi := 0; fi < rv.NumField(); fi++ {
			f := rv.Field(fi)
			name := rv.Type().Field(fi).Name
			switch {
			case f.Kind() == reflect.Int64:
				numF = append(numF, name)
			case name == "Creator":
			case f.Kind() == reflect.String:
				strF = append(strF, name)
			case f.Kind() == reflect.Slice && f.Type().Elem().Kind() == reflect.Uint8:
				strF = append(strF, name)
			default:
				if _, ok := f.Interface().(sdk.Coin); ok {
					coinF = append(coinF, name)
				}
			}
		}
		muts := 1 + rng.Intn(2)
		for j := 0; j < muts; j++ {
			switch {
			case len(numF) > 0 && rng.Chance(3, 4):
				st.N["mutN."+numF[rng.Intn(len(numF))]] = boundaryInts[rng.Intn(len(boundaryInts))]
			case len(coinF) > 0 && rng.Chance(1, 2):
				st.N["mutC."+coinF[rng.Intn(len(coinF))]] = boundaryInts[rng.Intn(len(boundaryInts))]
			case len(strF) > 0:
				st.S["mutS."+strF[rng.Intn(len(strF))]] = boundaryStrings[rng.Intn(len(boundaryStrings))]
			}
		}
		// insert at a random position among the block's steps
		pos := 0
		if len(blk.Steps) > 0 {
			pos = rng.Intn(len(blk.Steps) + 1)
		}
		blk.Steps = append(blk.Steps[:pos], append([]Step{st}, blk.Steps[pos:]...)...)
	}
	return blk
}

type oracleC05 struct {
	NopOracle
	boundaryAccepted int
}

func (o *oracleC05) OnPanic(w *World, phase, text, frame string) {
	if phase == "BeginBlock" || phase == "EndBlock" || phase == "Commit" {
		w.Violate(fmt.Sprintf("C05:%s:%s:%s", phase, text, frame), "%s of height %d panicked: %s (top repository frame %s)", phase, w.height, text, frame)
	}
}

func (o *oracleC05) AfterStep(w *World, st *Step, msgs []sdk.Msg, res *abci.ResponseDeliverTx) {
	if st.Fault == "boundary_values" {
		if msgs[0].ValidateBasic() != nil {
			w.Probe("boundary_msg_rejected_by_validate_basic")
		} else if res.Code == 0 {
			o.boundaryAccepted++
			w.Probe("boundary_msg_accepted")
			w.Probe("boundary_msg_accepted:" + shortKind(msgs))
		} else {
			w.Probe("boundary_msg_failed_in_handler")
		}
	}
}

func (o *oracleC05) AfterBegin(w *World, _ *abci.ResponseBeginBlock) {
	if isRewardHeight(w, w.height) {
		w.Probe("reward_block")
		if o.boundaryAccepted > 0 {
			w.Probe("reward_block_after_boundary_msg")
			w.NonTrivial()
		}
	}
}

func init() {
	register(&Property{
		ID:        "C05",
		NewGen:    func() Generator { return &genC05{} },
		NewOracle: func() Oracle { return &oracleC05{} },
		Runs:      map[string]int{"quick": 500, "thorough": 15000},
		Required:  []string{"boundary_msg_accepted", "reward_block_after_boundary_msg"},
		Rule: "the mixed storage workload (files, provers, gauges, attest/report, provider management, reward blocks every 2-6 blocks) interleaved with messages of all 45 custom types whose numeric fields are overwritten from a boundary table (0, +-1, 2^31, 2^32, 2^62, MaxInt64, MinInt64, ...) and string fields from crafted sets, under module parameters fuzzed within what the modules' own validators accept, swarm network faults; " +
			"non-trivial = a reward block was processed after at least one boundary-valued message had been accepted; distinct = distinct (message kind, outcome) sequences",
	})
}
