package main

import (
	minttypes "github.com/jackalLabs/canine-chain/v4/x/jklmint/types"
	storagetypes "github.com/jackalLabs/canine-chain/v4/x/storage/types"
)

type Property struct {
	ID        string
	NewGen    func() Generator
	NewOracle func() Oracle
	Runs      map[string]int // tier -> number of runs
	// probes that must be non-zero over a whole thorough batch (else exit 2)
	Required []string
	Rule     string
	Real     []string
	Stub     []string
}

var registry = map[string]*Property{}

func register(p *Property) { registry[p.ID] = p }

var realComponents = []string{"app.JackalApp (BaseApp, ante handler with signature verification, auth, bank, staking, distribution, crisis, params, IAVL/rootmulti stores over MemDB)",
	"x/storage, x/rns, x/filetree, x/notifications, x/oracle, x/jklmint keepers, msg servers, begin/end blockers, query servers"}
var stubComponents = []string{"Tendermint consensus/mempool/p2p (the simulator is proposer and network)", "disk (tm-db MemDB; durable = committed versions)",
	"provider daemon and client SDK (simulated actors using the repo's BuildTree)", "CosmWasm contracts (none deployed)", "IBC"}

// baseConfig returns a configuration with default module params; generators
// overwrite the knobs they randomise.
func baseConfig(rng *Rng) Config {
	sp := storagetypes.DefaultParams()
	mp := minttypes.DefaultParams()
	return Config{
		InitialHeight:  1,
		GenesisUnix:    1_700_000_000 + rng.Range(0, 1_000_000),
		NAccts:         8,
		Balance:        1_000_000_000_000_000,
		InvCheckPeriod: 0,
		Storage:        sp,
		Mint:           mp,
		BlockMaxGas:    -1,
	}
}

const sec = int64(1_000_000_000)

// pickDt draws a block time delta. Most blocks take ~6 s; some 0, some jump.
func pickDt(rng *Rng, jumps bool) int64 {
	switch v := rng.Intn(100); {
	case v < 70:
		return 6 * sec
	case v < 78:
		return 0
	case v < 86:
		return rng.Range(1, 999) * 1000 // microseconds
	case v < 93 || !jumps:
		return rng.Range(1, 20) * sec
	case v < 97:
		return rng.Range(1, 48) * 3600 * sec
	default:
		return rng.Range(1, 40) * 86400 * sec
	}
}
