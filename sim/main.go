package main

import (
	"fmt"
	"os"
	"strconv"
)

var realStdout = os.Stdout

func main() {
	if len(os.Args) < 2 {
		fmt.Fprintln(os.Stderr, "usage: chainsim check PROP TIER | replay FILE | run PROP RUN [TIER] | worker ... | minimise IN OUT CLASS | list")
		os.Exit(2)
	}
	initSDK()
	initAddrs()
	switch os.Args[1] {
	case "check":
		tier := "quick"
		if len(os.Args) > 3 {
			tier = os.Args[3]
		}
		if t := os.Getenv("VERIF_TIER"); t != "" && len(os.Args) <= 3 {
			tier = t
		}
		os.Exit(cmdCheck(os.Args[2], tier))
	case "worker":
		os.Exit(cmdWorker(os.Args[2:]))
	case "minimise":
		os.Exit(cmdMinimise(os.Args[2], os.Args[3], os.Args[4]))
	case "replay":
		os.Exit(cmdReplay(os.Args[2], len(os.Args) > 3))
	case "run":
		// debugging: one run in-process, verbose
		p := registry[os.Args[2]]
		i, _ := strconv.Atoi(os.Args[3])
		tier := "quick"
		if len(os.Args) > 4 {
			tier = os.Args[4]
		}
		quietStdout()
		s, r := oneRun(p, tier, batchSeed(), i)
		fmt.Fprintln(realStdout, s.sample(60))
		r.Sample = ""
		fmt.Fprintln(realStdout, mustJSON(r))
		if len(os.Args) > 5 {
			_ = os.WriteFile(os.Args[5], []byte(mustJSON(s)), 0o644)
		}
		cleanupScratch()
	case "list":
		for _, k := range sortedKeys(registry) {
			fmt.Println(k)
		}
	default:
		os.Exit(2)
	}
}
