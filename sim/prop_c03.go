package main

import (
	"sort"

	sdk "github.com/cosmos/cosmos-sdk/types"
	abci "github.com/tendermint/tendermint/abci/types"

	storagetypes "github.com/jackalLabs/canine-chain/v4/x/storage/types"
)

// ---------------- C03: reward blocks count and pay each prover exactly once ----------------

type gaugeSnap struct {
	accts map[string]storagetypes.PaymentGauge // gauge account -> gauge record
}

func readGauges(w *World) gaugeSnap {
	g := gaugeSnap{accts: map[string]storagetypes.PaymentGauge{}}
	for _, pg := range w.node().app.StorageKeeper.GetAllPaymentGauges(w.Ctx()) {
		a, err := storagetypes.GetGaugeAccount(pg)
		if err != nil {
			continue
		}
		g.accts[a.String()] = pg
	}
	return g
}

type oracleC03 struct {
	NopOracle
	reward   bool
	pre      storSnap
	preBal   Bal
	preG     gaugeSnap
	allGauge map[string]bool // every gauge account ever seen
}

func (o *oracleC03) Start(w *World) { o.allGauge = map[string]bool{} }

func (o *oracleC03) noteGauges(w *World) {
	for a := range readGauges(w).accts {
		o.allGauge[a] = true
	}
}

func (o *oracleC03) AfterStep(w *World, st *Step, msgs []sdk.Msg, res *abci.ResponseDeliverTx) {
	if res.Code == 0 {
		for _, m := range msgs {
			switch m.(type) {
			case *storagetypes.MsgBuyStorage, *storagetypes.MsgPostFile:
				o.noteGauges(w)
			}
		}
	}
}

func (o *oracleC03) BeforeBegin(w *World) {
	o.reward = isRewardHeight(w, w.height)
	if !o.reward {
		return
	}
	o.pre = readStor(w)
	o.preBal = w.Balances()
	o.preG = readGauges(w)
	for a := range o.preG.accts {
		o.allGauge[a] = true
	}
}

func windowStart(f *storagetypes.UnifiedFile, h int64) int64 {
	if f.ProofInterval <= 0 {
		return f.Start
	}
	k := h - f.Start
	return f.Start + k - (k % f.ProofInterval)
}

func (o *oracleC03) AfterBegin(w *World, _ *abci.ResponseBeginBlock) {
	if !o.reward {
		return
	}
	H := w.height
	post := readStor(w)
	postBal := w.Balances()
	cands := w.allBech()
	credit := map[string]int64{}
	expBurn := map[string]int64{}
	var T int64
	consistent := true
	maxListed := 0
	nonLastMissed := false
	fkeys := make([]string, 0, len(o.pre.files))
	for k := range o.pre.files {
		fkeys = append(fkeys, k)
	}
	sort.Strings(fkeys)
	for _, fk := range fkeys {
		f := o.pre.files[fk]
		listed := listedOn(&f, cands)
		if len(listed) != len(f.Proofs) || f.FileSize <= 0 || f.ProofInterval <= 0 {
			consistent = false // duplicates / unknown keys / degenerate sizes: other properties' business
			continue
		}
		T += f.FileSize * int64(len(f.Proofs))
		if len(f.Proofs) > maxListed {
			maxListed = len(f.Proofs)
		}
		young := f.Start+f.ProofInterval >= H
		expRemoved := map[string]bool{}
		// order of the list, to know whether a non-last prover missed
		for idx, key := range f.Proofs {
			for a := range listed {
				if f.MakeProofKey(a) != key {
					continue
				}
				rec, found := o.pre.proofs[pkey(a, f.Merkle, f.Owner, f.Start)]
				if !found {
					consistent = false
					continue
				}
				met := young || rec.LastProven >= windowStart(&f, H)-f.ProofInterval
				if met {
					credit[a] += f.FileSize
				} else {
					expRemoved[a] = true
					if _, isProv := o.pre.provs[a]; isProv {
						expBurn[a]++
					}
					if idx < len(f.Proofs)-1 {
						nonLastMissed = true
					}
				}
			}
		}
		qf, ok := post.files[fk]
		after := map[string]bool{}
		if ok {
			after = listedOn(&qf, cands)
		}
		for a := range listed {
			switch {
			case expRemoved[a] && after[a]:
				w.Violate("C03:missed-not-removed", "reward block %d: prover %s missed its obligation on %s but is still listed", H, a, fk)
			case !expRemoved[a] && !after[a]:
				w.Violate("C03:met-removed", "reward block %d: prover %s met its obligation on %s but was removed", H, a, fk)
			}
		}
		for a := range after {
			if !listed[a] {
				w.Violate("C03:listed-by-reward-block", "reward block %d: %s appeared on %s", H, a, fk)
			}
		}
	}
	if !consistent {
		w.Probe("reward_block_inconsistent_prestate")
		return
	}
	for a := range o.pre.provs {
		if d := post.burns[a] - o.pre.burns[a]; d != expBurn[a] {
			w.Violate("C03:burn-delta", "reward block %d: provider %s burn counter moved by %d, expected %d (one per missed file)", H, a, d, expBurn[a])
		}
	}
	// released amount: outflow of gauge accounts
	initAddrs()
	R := sdk.ZeroInt()
	for a := range o.allGauge {
		d := o.preBal.Of(a, denom).Sub(postBal.Of(a, denom))
		R = R.Add(d)
	}
	ex := (&oracleC01{}).mintRecipients(w)
	for a := range o.allGauge {
		ex[a] = true
	}
	delta := o.preBal.Delta(postBal, denom)
	var sumC int64
	for _, c := range credit {
		sumC += c
	}
	paid := sdk.ZeroInt()
	x := map[string]sdk.Int{}
	for a, d := range delta {
		if ex[a] {
			continue
		}
		x[a] = d
		paid = paid.Add(d)
		if credit[a] == 0 {
			w.Violate("C03:paid-uncounted", "reward block %d: account %s balance moved by %s but it was not counted for any file", H, a, d)
		}
	}
	if paid.GT(R) {
		w.Violate("C03:overpaid-total", "reward block %d: paid %s in total, released %s", H, paid, R)
	}
	if R.IsPositive() && T > 0 {
		names := sortedKeys(credit)
		for _, a := range names {
			c := credit[a]
			xa, ok := x[a]
			if !ok {
				xa = sdk.ZeroInt()
			}
			lo := R.MulRaw(c).QuoRaw(T).SubRaw(1)
			hi := R.MulRaw(c).AddRaw(sumC - 1).QuoRaw(sumC).AddRaw(1)
			if xa.LT(lo) || xa.GT(hi) {
				cls := "C03:share-out-of-band"
				hi2 := R.MulRaw(2 * c).AddRaw(sumC - 1).QuoRaw(sumC).AddRaw(2)
				lo2 := R.MulRaw(2 * c).QuoRaw(T).SubRaw(2)
				switch {
				case xa.IsZero() && lo.GTE(sdk.OneInt()):
					cls = "C03:not-credited"
				case xa.GT(hi) && xa.GTE(lo2) && xa.LTE(hi2):
					cls = "C03:double-credit"
				}
				w.Violate(cls, "reward block %d: prover %s counted for %d bytes of %d (network %d) received %s of %s released; expected within [%s,%s]", H, a, c, sumC, T, xa, R, lo, hi)
			}
		}
		// proportionality, scale free
		if R.LTE(sdk.NewInt(1_000_000_000_000_000)) {
			for i := 0; i < len(names); i++ {
				for j := i + 1; j < len(names); j++ {
					p, q := names[i], names[j]
					xp, xq := x[p], x[q]
					if xp.IsNil() {
						xp = sdk.ZeroInt()
					}
					if xq.IsNil() {
						xq = sdk.ZeroInt()
					}
					lhs := xp.MulRaw(credit[q]).Sub(xq.MulRaw(credit[p])).Abs()
					mx := credit[p]
					if credit[q] > mx {
						mx = credit[q]
					}
					if lhs.MulRaw(1000).GT(sdk.NewInt(mx).MulRaw(1002).AddRaw(1000)) {
						w.Violate("C03:not-proportional", "reward block %d: %s got %s for %d bytes, %s got %s for %d bytes", H, p, xp, credit[p], q, xq, credit[q])
					}
				}
			}
		}
		w.Probe("reward_block_with_release")
		if len(credit) >= 2 {
			w.NonTrivial()
			w.Probe("reward_block_2plus_counted")
		}
		if maxListed >= 3 && nonLastMissed {
			w.Probe("reward_block_nonlast_missed_of_3")
		}
	}
	if nonLastMissed {
		w.Probe("reward_block_nonlast_missed")
	}
}

func init() {
	register(&Property{
		ID:        "C03",
		NewGen:    func() Generator { return &genStorage{profile: "rewards"} },
		NewOracle: func() Oracle { return &oracleC03{} },
		Runs:      map[string]int{"quick": 500, "thorough": 12000},
		Required:  []string{"reward_block_with_release", "reward_block_2plus_counted", "reward_block_nonlast_missed_of_3"},
		Rule: "online-generated storage histories biased to 3-6 provers per file joining in permuted order with PRNG-chosen subsets turning lazy, plans bought so gauges release tokens at every reward block, clock jumps, swarm network faults; " +
			"non-trivial = a reward block released tokens with at least two counted provers; distinct = distinct (message kind, outcome) sequences",
	})
}
