package main

import (
	"crypto/sha256"
	"encoding/json"
	"fmt"
	"strings"

	sdk "github.com/cosmos/cosmos-sdk/types"
	abci "github.com/tendermint/tendermint/abci/types"

	fttypes "github.com/jackalLabs/canine-chain/v4/x/filetree/types"
)

// ---------------- client-side helpers (what a wallet computes) ----------------

func shaHex(s string) string { return fmt.Sprintf("%x", sha256.Sum256([]byte(s))) }

func ftAcctHash(bech string) string           { return shaHex(bech) }
func ftOwnerID(address, acctHash string) string { return shaHex("o" + address + acctHash) }
func ftEditorID(tracking, bech string) string { return shaHex("e" + tracking + bech) }
func ftViewerID(tracking, bech string) string { return shaHex("v" + tracking + bech) }

func (w *World) ftEntry(address, owner string) (fttypes.Files, bool) {
	return w.node().app.FileTreeKeeper.GetFiles(w.Ctx(), address, owner)
}

func maskAccts(w *World, mask int64) []*Acct {
	var out []*Acct
	for i, a := range w.accts {
		if mask&(1<<uint(i)) != 0 {
			out = append(out, a)
		}
	}
	return out
}

func accessJSON(ids []string) string {
	m := map[string]string{}
	for i, id := range ids {
		m[id] = fmt.Sprintf("k%d", i)
	}
	b, _ := json.Marshal(m)
	return string(b)
}

func (w *World) resolveFiletreeOp(op Op) sdk.Msg {
	a := w.acct(int64(op.A))
	if a == nil {
		return nil
	}
	acct := w.acct(op.nd("acct", int64(op.A))) // the account owning the folder / entry
	if acct == nil {
		return nil
	}
	ov := func(k, def string) string { // raw override (crafted strings)
		if v, ok := op.S[k]; ok {
			return v
		}
		return def
	}
	path := op.s("path")
	address := ov("raw_address", fttypes.MerklePath(path))
	ah := ov("raw_account", ftAcctHash(acct.Bech))
	ownerID := ov("raw_owner", ftOwnerID(address, ah))
	tracking := op.s("tracking")
	switch op.K {
	case "ft_provision":
		var eids, vids []string
		for _, x := range maskAccts(w, op.nd("editors", 1<<uint(op.A))) {
			eids = append(eids, ftEditorID(tracking, x.Bech))
		}
		for _, x := range maskAccts(w, op.nd("viewers", 1<<uint(op.A))) {
			vids = append(vids, ftViewerID(tracking, x.Bech))
		}
		return &fttypes.MsgProvisionFileTree{Creator: a.Bech, Editors: ov("raw_editors", accessJSON(eids)), Viewers: ov("raw_viewers", accessJSON(vids)), TrackingNumber: tracking}
	case "ft_post":
		parent := ov("raw_parent", fttypes.MerklePath(op.s("parent")))
		child := ov("raw_child", shaHex(op.s("child")))
		var eids, vids []string
		for _, x := range maskAccts(w, op.n("editors")) {
			eids = append(eids, ftEditorID(tracking, x.Bech))
		}
		for _, x := range maskAccts(w, op.n("viewers")) {
			vids = append(vids, ftViewerID(tracking, x.Bech))
		}
		return &fttypes.MsgPostFile{Creator: a.Bech, Account: ah, HashParent: parent, HashChild: child, Contents: op.s("contents"),
			Viewers: ov("raw_viewers", accessJSON(vids)), Editors: ov("raw_editors", accessJSON(eids)), TrackingNumber: tracking}
	case "ft_delete":
		return &fttypes.MsgDeleteFile{Creator: a.Bech, HashPath: address, Account: ah}
	case "ft_chown":
		no := w.acct(op.n("newowner"))
		if no == nil {
			return nil
		}
		return &fttypes.MsgChangeOwner{Creator: a.Bech, Address: address, FileOwner: ah, NewOwner: ov("raw_newowner", ftAcctHash(no.Bech))}
	case "ft_addviewers", "ft_rmviewers", "ft_addeditors", "ft_rmeditors":
		tr := "none"
		if e, ok := w.ftEntry(address, ownerID); ok {
			tr = e.TrackingNumber
		}
		var ids, keys []string
		for i, x := range maskAccts(w, op.n("mask")) {
			if strings.Contains(op.K, "viewers") {
				ids = append(ids, ftViewerID(tr, x.Bech))
			} else {
				ids = append(ids, ftEditorID(tr, x.Bech))
			}
			keys = append(keys, fmt.Sprintf("key%d", i))
		}
		idl, kl := ov("raw_ids", strings.Join(ids, ",")), ov("raw_keys", strings.Join(keys, ","))
		switch op.K {
		case "ft_addviewers":
			return &fttypes.MsgAddViewers{Creator: a.Bech, ViewerIds: idl, ViewerKeys: kl, Address: address, FileOwner: ownerID}
		case "ft_rmviewers":
			return &fttypes.MsgRemoveViewers{Creator: a.Bech, ViewerIds: idl, Address: address, FileOwner: ownerID}
		case "ft_addeditors":
			return &fttypes.MsgAddEditors{Creator: a.Bech, EditorIds: idl, EditorKeys: kl, Address: address, FileOwner: ownerID}
		default:
			return &fttypes.MsgRemoveEditors{Creator: a.Bech, EditorIds: idl, Address: address, FileOwner: ownerID}
		}
	case "ft_resetviewers":
		return &fttypes.MsgResetViewers{Creator: a.Bech, Address: address, FileOwner: ownerID}
	case "ft_reseteditors":
		return &fttypes.MsgResetEditors{Creator: a.Bech, Address: address, FileOwner: ownerID}
	case "ft_postkey":
		return &fttypes.MsgPostKey{Creator: a.Bech, Key: op.s("key")}
	}
	return nil
}

func init() {
	opResolvers = append(opResolvers, func(w *World, op Op) sdk.Msg { return w.resolveFiletreeOp(op) })
}

// ---------------- generator ----------------

type genC10 struct {
	net   *Net
	nb    int
	users []int
	paths []string // plain paths that may exist: "s", "s/docs", ...
}

func (g *genC10) Config(rng *Rng, tier string) Config {
	c := baseConfig(rng)
	n := 3 + rng.Intn(3)
	c.NAccts = n + 2
	for i := 1; i <= n; i++ {
		g.users = append(g.users, i)
	}
	c.Mint.StorageStipendAddress = makeAcct(n + 1).Bech
	g.paths = []string{"s", "s/docs", "s/pics", "s/docs/a", "s/docs/b", "s/docs/a/deep"}
	g.nb = 30 + rng.Intn(40)
	if tier == "thorough" {
		g.nb = 40 + rng.Intn(80)
	}
	g.net = newNet(rng, []string{"tx_dup", "tx_delay", "tx_reorder", "out_of_gas", "crash_restart", "tx_drop", "multi_msg"}, 5)
	c.InvCheckPeriod = uint(rng.Pick64(0, 0, 1))
	return c
}

func (g *genC10) NBlocks() int { return g.nb }

var craftedStrings = []string{"", "/", "a/b", "s/", "/s", "%2F", "ünïcode", " ", "o", "0", "../x", "a,b", ",", "{}", "null"}

func (g *genC10) Block(w *World, b int) Block {
	rng := w.rng
	blk := Block{DtNs: pickDt(rng, false)}
	var steps []Step
	add := func(ops ...Op) { steps = append(steps, txStep(ops...)) }
	pick := func() int { return g.users[rng.Intn(len(g.users))] }
	mask := func() int64 {
		var m int64
		for _, u := range g.users {
			if rng.Chance(1, 3) {
				m |= 1 << uint(u)
			}
		}
		return m
	}
	if b == 0 {
		for _, u := range g.users {
			if rng.Chance(4, 5) {
				add(mkOp("ft_provision", u).withS("tracking", fmt.Sprintf("t%d", u)).withN("editors", (1<<uint(u))|mask()).withN("viewers", 1<<uint(u)))
			}
		}
	}
	k := rng.Intn(5)
	for i := 0; i < k; i++ {
		owner := pick()
		signer := owner
		if rng.Chance(2, 5) {
			signer = pick() // editor, viewer, stranger or previous owner, whatever this account is by now
		}
		p := g.paths[rng.Intn(len(g.paths))]
		var op Op
		switch rng.Weighted([]int{24, 8, 8, 9, 7, 9, 7, 5, 5, 4}) {
		case 0:
			child := g.paths[1+rng.Intn(len(g.paths)-1)]
			idx := strings.LastIndex(child, "/")
			op = mkOp("ft_post", signer).withN("acct", int64(owner)).withS("parent", child[:idx]).withS("child", child[idx+1:]).
				withS("contents", fmt.Sprintf("c%d", rng.Intn(1000))).withS("tracking", fmt.Sprintf("t%d-%d", owner, rng.Intn(4))).
				withN("editors", (1<<uint(owner))|mask()).withN("viewers", (1<<uint(owner))|mask())
		case 1:
			op = mkOp("ft_delete", signer).withN("acct", int64(owner)).withS("path", p)
		case 2:
			op = mkOp("ft_chown", signer).withN("acct", int64(owner)).withS("path", p).withN("newowner", int64(pick()))
		case 3:
			op = mkOp("ft_addviewers", signer).withN("acct", int64(owner)).withS("path", p).withN("mask", mask()|1<<uint(pick()))
		case 4:
			op = mkOp("ft_rmviewers", signer).withN("acct", int64(owner)).withS("path", p).withN("mask", mask()|1<<uint(pick()))
		case 5:
			op = mkOp("ft_addeditors", signer).withN("acct", int64(owner)).withS("path", p).withN("mask", mask()|1<<uint(pick()))
		case 6:
			op = mkOp("ft_rmeditors", signer).withN("acct", int64(owner)).withS("path", p).withN("mask", mask()|1<<uint(pick()))
		case 7:
			op = mkOp("ft_resetviewers", signer).withN("acct", int64(owner)).withS("path", p)
		case 8:
			op = mkOp("ft_reseteditors", signer).withN("acct", int64(owner)).withS("path", p)
		case 9:
			op = mkOp("ft_provision", signer).withS("tracking", fmt.Sprintf("t%d-r%d", signer, rng.Intn(3))).withN("editors", (1<<uint(signer))|mask()).withN("viewers", 1<<uint(signer))
		}
		if rng.Chance(1, 7) {
			// crafted field values
			cs := craftedStrings[rng.Intn(len(craftedStrings))]
			victim := w.accts[pick()].Bech
			switch rng.Intn(8) {
			case 0:
				op = op.withS("raw_address", cs)
			case 1:
				op = op.withS("raw_account", cs)
			case 2:
				op = op.withS("raw_owner", cs)
			case 3:
				// split the concatenation parent+account differently
				full := fttypes.MerklePath(p) + ftAcctHash(victim)
				cut := 1 + rng.Intn(len(full)-1)
				op = op.withS("raw_address", full[:cut]).withS("raw_parent", full[:cut]).withS("raw_account", full[cut:])
			case 4:
				op = op.withS("raw_ids", cs).withS("raw_keys", cs)
			case 5:
				op = op.withS("raw_keys", "") // fewer keys than ids
			case 6:
				op = op.withS("raw_editors", cs).withS("raw_viewers", cs)
			case 7:
				op = op.withS("raw_account", victim) // bech32 instead of its hash
			}
		}
		add(op)
	}
	blk.Steps = g.net.Apply(rng, b, len(w.nodes), steps)
	if b > 0 && rng.Chance(1, 10) && len(g.users) >= 2 {
		// a grant that is rolled back, then used: the owner's transaction [grant X a right on a folder, a
		// payment that must fail] leaves nothing behind, so X's attempt right afterwards must be refused
		owner := pick()
		x := pick()
		for x == owner {
			x = pick()
		}
		child := g.paths[1+rng.Intn(len(g.paths)-1)]
		idx := strings.LastIndex(child, "/")
		parent := child[:idx]
		grant := mkOp("ft_addeditors", owner).withN("acct", int64(owner)).withS("path", parent).withN("mask", 1<<uint(x))
		use := mkOp("ft_post", x).withN("acct", int64(owner)).withS("parent", parent).withS("child", child[idx+1:]).
			withS("contents", fmt.Sprintf("r%d", rng.Intn(1000))).withS("tracking", fmt.Sprintf("t%d-%d", owner, rng.Intn(4))).
			withN("editors", (1<<uint(owner))|(1<<uint(x))).withN("viewers", 1<<uint(owner))
		if rng.Chance(1, 3) {
			grant = mkOp("ft_chown", owner).withN("acct", int64(owner)).withS("path", child).withN("newowner", int64(x))
			use = mkOp("ft_delete", x).withN("acct", int64(x)).withS("path", child)
		}
		st := txStep(grant, mkOp("bank_send", owner).withN("to", 0).withN("amt", 9_000_000_000_000_000_000))
		st.Fault = "multi_msg"
		blk.Steps = append(blk.Steps, st, txStep(use))
		w.Probe("rolled_back_grant_then_use")
	}
	if len(w.nodes) == 1 && rng.Chance(1, 50) {
		blk.Reimport = true // restart of the whole chain from its own exported genesis
	}
	return blk
}

// ---------------- model + oracle ----------------

type ftDump map[string]fttypes.Files // key: address + "\x00" + owner

func ftKey(address, owner string) string { return address + "\x00" + owner }

func readFt(w *World) ftDump {
	d := ftDump{}
	for _, f := range w.node().app.FileTreeKeeper.GetAllFiles(w.Ctx()) {
		d[ftKey(f.Address, f.Owner)] = f
	}
	return d
}

func cloneFt(d ftDump) ftDump {
	o := ftDump{}
	for k, v := range d {
		o[k] = v
	}
	return o
}

func ftEqual(a, b ftDump) (bool, string) {
	for k, v := range a {
		w, ok := b[k]
		if !ok {
			return false, "entry " + strings.ReplaceAll(k, "\x00", "|") + " missing"
		}
		if v != w {
			return false, fmt.Sprintf("entry %s differs: %+v vs %+v", strings.ReplaceAll(k, "\x00", "|"), v, w)
		}
	}
	for k := range b {
		if _, ok := a[k]; !ok {
			return false, "extra entry " + strings.ReplaceAll(k, "\x00", "|")
		}
	}
	return true, ""
}

func parseAccess(s string) (map[string]string, bool) {
	m := map[string]string{}
	if err := json.Unmarshal([]byte(s), &m); err != nil {
		return nil, false
	}
	return m, true
}

func modelIsOwner(f fttypes.Files, signer string) bool {
	return ftOwnerID(f.Address, ftAcctHash(signer)) == f.Owner
}

// ftApply is the reference model: given the pre-state and a message it returns
// the expected post-state and whether the message is authorised and well-formed.
func ftApply(pre ftDump, m sdk.Msg) (post ftDump, ok bool, why string) {
	post = cloneFt(pre)
	// fn returns the new access map (nil map allowed, it marshals to "null") and whether the
	// id/key lists were well-formed. Writing into the nil map a stored "null" decodes to makes the
	// chain's handler panic, i.e. the transaction fails: the model reports "not ok" for it.
	accessEdit := func(address, owner, signer string, viewers bool, fn func(map[string]string, fttypes.Files) (map[string]string, bool)) (ftDump, bool, string) {
		f, found := pre[ftKey(address, owner)]
		if !found {
			return post, false, "no such entry"
		}
		if !modelIsOwner(f, signer) {
			return post, false, "signer is not the owner"
		}
		src := f.EditAccess
		if viewers {
			src = f.ViewingAccess
		}
		mm, good := parseAccess(src)
		if !good {
			return post, false, "stored access list unparseable"
		}
		var out map[string]string
		okFn := func() (ok bool) {
			defer func() {
				if r := recover(); r != nil {
					ok = false
				}
			}()
			out, ok = fn(mm, f)
			return ok
		}()
		if !okFn {
			return post, false, "malformed id/key lists"
		}
		bz, _ := json.Marshal(out)
		if viewers {
			f.ViewingAccess = string(bz)
		} else {
			f.EditAccess = string(bz)
		}
		post[ftKey(address, owner)] = f
		return post, true, ""
	}
	switch x := m.(type) {
	case *fttypes.MsgProvisionFileTree:
		addr := fttypes.MerklePath("s")
		f := fttypes.Files{Address: addr, Contents: "", Owner: ftOwnerID(addr, ftAcctHash(x.Creator)), ViewingAccess: x.Viewers, EditAccess: x.Editors, TrackingNumber: x.TrackingNumber}
		post[ftKey(f.Address, f.Owner)] = f
		return post, true, ""
	case *fttypes.MsgPostFile:
		parent, found := pre[ftKey(x.HashParent, ftOwnerID(x.HashParent, x.Account))]
		if !found {
			return post, false, "no such parent"
		}
		eds, good := parseAccess(parent.EditAccess)
		if !good {
			return post, false, "parent editors unparseable"
		}
		if _, has := eds[ftEditorID(parent.TrackingNumber, x.Creator)]; !has {
			return post, false, "signer has no edit access to the parent"
		}
		addr := shaHex(x.HashParent + x.HashChild)
		f := fttypes.Files{Address: addr, Contents: x.Contents, Owner: ftOwnerID(addr, x.Account), ViewingAccess: x.Viewers, EditAccess: x.Editors, TrackingNumber: x.TrackingNumber}
		post[ftKey(f.Address, f.Owner)] = f
		return post, true, ""
	case *fttypes.MsgDeleteFile:
		k := ftKey(x.HashPath, ftOwnerID(x.HashPath, x.Account))
		f, found := pre[k]
		if !found {
			return post, false, "no such entry"
		}
		if !modelIsOwner(f, x.Creator) {
			return post, false, "signer is not the owner"
		}
		delete(post, k)
		return post, true, ""
	case *fttypes.MsgChangeOwner:
		k := ftKey(x.Address, ftOwnerID(x.Address, x.FileOwner))
		f, found := pre[k]
		if !found {
			return post, false, "no such entry"
		}
		if !modelIsOwner(f, x.Creator) {
			return post, false, "signer is not the owner"
		}
		nk := ftKey(x.Address, ftOwnerID(x.Address, x.NewOwner))
		if _, exists := pre[nk]; exists {
			return post, false, "target exists"
		}
		delete(post, k)
		f.Owner = ftOwnerID(x.Address, x.NewOwner)
		post[nk] = f
		return post, true, ""
	case *fttypes.MsgAddViewers:
		return accessEdit(x.Address, x.FileOwner, x.Creator, true, func(mm map[string]string, _ fttypes.Files) (map[string]string, bool) {
			ids, keys := strings.Split(x.ViewerIds, ","), strings.Split(x.ViewerKeys, ",")
			if len(keys) < len(ids) {
				return nil, false
			}
			for i, id := range ids {
				mm[id] = keys[i]
			}
			return mm, true
		})
	case *fttypes.MsgAddEditors:
		return accessEdit(x.Address, x.FileOwner, x.Creator, false, func(mm map[string]string, _ fttypes.Files) (map[string]string, bool) {
			ids, keys := strings.Split(x.EditorIds, ","), strings.Split(x.EditorKeys, ",")
			if len(keys) < len(ids) {
				return nil, false
			}
			for i, id := range ids {
				mm[id] = keys[i]
			}
			return mm, true
		})
	case *fttypes.MsgRemoveViewers:
		return accessEdit(x.Address, x.FileOwner, x.Creator, true, func(mm map[string]string, _ fttypes.Files) (map[string]string, bool) {
			for _, id := range strings.Split(x.ViewerIds, ",") {
				delete(mm, id)
			}
			return mm, true
		})
	case *fttypes.MsgRemoveEditors:
		return accessEdit(x.Address, x.FileOwner, x.Creator, false, func(mm map[string]string, _ fttypes.Files) (map[string]string, bool) {
			for _, id := range strings.Split(x.EditorIds, ",") {
				delete(mm, id)
			}
			return mm, true
		})
	case *fttypes.MsgResetViewers:
		return accessEdit(x.Address, x.FileOwner, x.Creator, true, func(mm map[string]string, f fttypes.Files) (map[string]string, bool) {
			own := ftViewerID(f.TrackingNumber, x.Creator)
			return map[string]string{own: mm[own]}, true
		})
	case *fttypes.MsgResetEditors:
		return accessEdit(x.Address, x.FileOwner, x.Creator, false, func(mm map[string]string, f fttypes.Files) (map[string]string, bool) {
			own := ftEditorID(f.TrackingNumber, x.Creator)
			return map[string]string{own: mm[own]}, true
		})
	}
	return post, true, "unjudged"
}

type oracleC10 struct {
	NopOracle
	pre ftDump
}

func (o *oracleC10) BeforeStep(w *World, st *Step, msgs []sdk.Msg) { o.pre = readFt(w) }

// role of the signer with respect to the entry the message names (for probes and classes)
func ftRole(pre ftDump, m sdk.Msg) string {
	signer := msgCreator(m)
	var f fttypes.Files
	found := false
	switch x := m.(type) {
	case *fttypes.MsgPostFile:
		f, found = pre[ftKey(x.HashParent, ftOwnerID(x.HashParent, x.Account))]
	case *fttypes.MsgDeleteFile:
		f, found = pre[ftKey(x.HashPath, ftOwnerID(x.HashPath, x.Account))]
	case *fttypes.MsgChangeOwner:
		f, found = pre[ftKey(x.Address, ftOwnerID(x.Address, x.FileOwner))]
	case *fttypes.MsgAddViewers:
		f, found = pre[ftKey(x.Address, x.FileOwner)]
	case *fttypes.MsgRemoveViewers:
		f, found = pre[ftKey(x.Address, x.FileOwner)]
	case *fttypes.MsgAddEditors:
		f, found = pre[ftKey(x.Address, x.FileOwner)]
	case *fttypes.MsgRemoveEditors:
		f, found = pre[ftKey(x.Address, x.FileOwner)]
	case *fttypes.MsgResetViewers:
		f, found = pre[ftKey(x.Address, x.FileOwner)]
	case *fttypes.MsgResetEditors:
		f, found = pre[ftKey(x.Address, x.FileOwner)]
	case *fttypes.MsgProvisionFileTree:
		return "self"
	}
	if !found {
		return "no-entry"
	}
	if modelIsOwner(f, signer) {
		return "owner"
	}
	if e, ok := parseAccess(f.EditAccess); ok {
		if _, has := e[ftEditorID(f.TrackingNumber, signer)]; has {
			return "editor"
		}
	}
	if v, ok := parseAccess(f.ViewingAccess); ok {
		if _, has := v[ftViewerID(f.TrackingNumber, signer)]; has {
			return "viewer"
		}
	}
	return "stranger"
}

func (o *oracleC10) AfterStep(w *World, st *Step, msgs []sdk.Msg, res *abci.ResponseDeliverTx) {
	post := readFt(w)
	kind := shortKind(msgs)
	if len(msgs) != 1 {
		return
	}
	if !strings.Contains(sdk.MsgTypeURL(msgs[0]), ".filetree.") {
		if same, what := ftEqual(o.pre, post); !same {
			w.Violate("C10:changed-by-foreign-module:"+kind, "%s changed the tree: %s", kind, what)
		}
		return
	}
	if _, isKey := msgs[0].(*fttypes.MsgPostKey); isKey {
		if same, what := ftEqual(o.pre, post); !same {
			w.Violate("C10:collateral-change:"+kind, "PostKey changed the tree: %s", what)
		}
		return
	}
	role := ftRole(o.pre, msgs[0])
	w.Probe("attempt:" + kind + ":" + role)
	if res.Code != 0 {
		if same, what := ftEqual(o.pre, post); !same {
			w.Violate("C10:failed-but-changed:"+kind, "failed %s changed the tree: %s", kind, what)
		}
		// The statement says "only when the signer has the right", not "whenever": a refusal of an authorised,
		// well-formed message breaks nothing in it (a chain may add further conditions), so it is counted,
		// not reported.
		if msgs[0].ValidateBasic() != nil {
			w.Probe("rejected_by_validate_basic")
			return
		}
		if _, ok, _ := ftApply(o.pre, msgs[0]); ok && st.Kind == "tx" && st.Gas == 0 {
			w.Probe("authorised_rejected:" + kind)
		}
		return
	}
	exp, ok, why := ftApply(o.pre, msgs[0])
	if why == "unjudged" {
		return
	}
	if !ok {
		w.Violate("C10:unauthorised-success:"+kind+":"+role, "%s signed by %s succeeded although the model refuses it (%s)", kind, msgCreator(msgs[0]), why)
		return
	}
	if same, what := ftEqual(exp, post); !same {
		cls := "C10:collateral-change:" + kind
		if _, isPost := msgs[0].(*fttypes.MsgPostFile); isPost {
			cls = "C10:wrong-effect:" + kind
		}
		w.Violate(cls, "%s succeeded but the tree differs from the expected one: %s", kind, what)
		return
	}
	w.Probe("ok:" + kind + ":" + role)
	w.NonTrivial()
	w.State(hashHex(fmt.Sprint(len(post))))
}

func (o *oracleC10) BeforeBegin(w *World) { o.pre = readFt(w) }
func (o *oracleC10) AfterBegin(w *World, _ *abci.ResponseBeginBlock) {
	if same, what := ftEqual(o.pre, readFt(w)); !same {
		w.Violate("C10:changed-in-begin-block", "%s", what)
	}
}

func init() {
	register(&Property{
		ID:        "C10",
		NewGen:    func() Generator { return &genC10{} },
		NewOracle: func() Oracle { return &oracleC10{} },
		Runs:      map[string]int{"quick": 400, "thorough": 10000},
		Required: []string{"ok:MsgPostFile:owner", "ok:MsgPostFile:editor", "attempt:MsgPostFile:stranger", "ok:MsgDeleteFile:owner", "attempt:MsgDeleteFile:editor", "attempt:MsgDeleteFile:stranger",
			"ok:MsgChangeOwner:owner", "ok:MsgAddViewers:owner", "ok:MsgRemoveViewers:owner", "ok:MsgAddEditors:owner", "ok:MsgRemoveEditors:owner", "ok:MsgResetViewers:owner", "ok:MsgResetEditors:owner",
			"attempt:MsgAddEditors:editor", "attempt:MsgResetEditors:stranger", "attempt:MsgChangeOwner:stranger"},
		Rule: "online-generated file-tree histories of 3-5 accounts: provision, post 1-3 levels deep by owners and granted editors, every mutating message by owners, editors, viewers, strangers and previous owners, id lists of 1-5 ids, one in seven messages with crafted address/account/owner/id strings (separators, concatenation re-splits, empty, unicode, short key lists), swarm network faults; " +
			"non-trivial = at least one authorised message succeeded with exactly the expected diff; distinct = distinct (message kind, outcome) sequences",
	})
}
