package main

import (
	"fmt"

	sdk "github.com/cosmos/cosmos-sdk/types"
	abci "github.com/tendermint/tendermint/abci/types"

	storagetypes "github.com/jackalLabs/canine-chain/v4/x/storage/types"
)

// ---------------- C14: attestations and reports act only on a quorum of named providers ----------------

type formRec struct {
	named  []string
	signed map[string]bool
}

type c14Snap struct {
	stor    storSnap
	attest  map[string]formRec // pkey(prover,file)
	report  map[string]formRec
	minPass int64
	size    int64
}

func readForms(w *World) c14Snap {
	ctx := w.Ctx()
	k := w.node().app.StorageKeeper
	s := c14Snap{stor: readStor(w), attest: map[string]formRec{}, report: map[string]formRec{}}
	p := w.storageParams()
	s.minPass, s.size = p.AttestMinToPass, p.AttestFormSize
	conv := func(as []*storagetypes.Attestation) formRec {
		r := formRec{signed: map[string]bool{}}
		for _, a := range as {
			r.named = append(r.named, a.Provider)
			if a.Complete {
				r.signed[a.Provider] = true
			}
		}
		return r
	}
	for _, f := range k.GetAllAttestation(ctx) {
		s.attest[pkey(f.Prover, f.Merkle, f.Owner, f.Start)] = conv(f.Attestations)
	}
	for _, f := range k.GetAllReport(ctx) {
		s.report[pkey(f.Prover, f.Merkle, f.Owner, f.Start)] = conv(f.Attestations)
	}
	return s
}

type oracleC14 struct {
	NopOracle
	pre c14Snap
}

func (o *oracleC14) BeforeStep(w *World, st *Step, msgs []sdk.Msg) { o.pre = readForms(w) }

func contains(xs []string, x string) bool {
	for _, y := range xs {
		if y == x {
			return true
		}
	}
	return false
}

// sameExcept compares two storage snapshots ignoring one proof record and one file.
func proofsFilesSame(a, b *storSnap, exceptProof, exceptFile string) (bool, string) {
	for k, p := range a.proofs {
		if k == exceptProof {
			continue
		}
		q, ok := b.proofs[k]
		if !ok || q.LastProven != p.LastProven || q.ChunkToProve != p.ChunkToProve {
			return false, "proof record " + k
		}
	}
	for k := range b.proofs {
		if _, ok := a.proofs[k]; !ok && k != exceptProof {
			return false, "new proof record " + k
		}
	}
	for k, f := range a.files {
		if k == exceptFile {
			continue
		}
		g, ok := b.files[k]
		if !ok || fmt.Sprint(f.Proofs) != fmt.Sprint(g.Proofs) {
			return false, "file " + k
		}
	}
	for k := range b.files {
		if _, ok := a.files[k]; !ok {
			return false, "new file " + k
		}
	}
	return true, ""
}

func formsSame(a, b map[string]formRec, except string) (bool, string) {
	for k, f := range a {
		if k == except {
			continue
		}
		g, ok := b[k]
		if !ok || fmt.Sprint(f.named) != fmt.Sprint(g.named) || len(f.signed) != len(g.signed) {
			return false, k
		}
		for s := range f.signed {
			if !g.signed[s] {
				return false, k
			}
		}
	}
	for k := range b {
		if _, ok := a[k]; !ok && k != except {
			return false, k
		}
	}
	return true, ""
}

func (o *oracleC14) checkNewForm(w *World, kind string, key string, prover string, f formRec) {
	if int64(len(f.named)) != o.pre.size {
		w.Violate("C14:form-size", "%s form %s names %d providers, configured size %d", kind, key, len(f.named), o.pre.size)
	}
	seen := map[string]bool{}
	for _, n := range f.named {
		if seen[n] {
			w.Violate("C14:form-size", "%s form %s names %s twice", kind, key, n)
		}
		seen[n] = true
		if n == prover {
			w.Violate("C14:form-names-prover", "%s form %s names the prover %s itself", kind, key, prover)
		}
		if _, ok := o.pre.stor.provs[n]; !ok {
			w.Violate("C14:form-names-unregistered", "%s form %s names %s which is not a registered provider", kind, key, n)
		}
		has := false
		for _, p := range o.pre.stor.proofs {
			if p.Prover == n {
				has = true
			}
		}
		if !has {
			w.Violate("C14:form-names-idle-provider", "%s form %s names %s which holds no proof", kind, key, n)
		}
	}
	w.Probe("form_created:" + kind)
}

func (o *oracleC14) AfterStep(w *World, st *Step, msgs []sdk.Msg, res *abci.ResponseDeliverTx) {
	post := readForms(w)
	if len(msgs) != 1 {
		return
	}
	switch m := msgs[0].(type) {
	case *storagetypes.MsgRequestAttestationForm, *storagetypes.MsgRequestReportForm:
		kind, prover := "attest", ""
		var merkle []byte
		var owner string
		var start int64
		preForms, postForms := o.pre.attest, post.attest
		if a, ok := m.(*storagetypes.MsgRequestAttestationForm); ok {
			prover, merkle, owner, start = a.Creator, a.Merkle, a.Owner, a.Start
		} else {
			r := m.(*storagetypes.MsgRequestReportForm)
			kind, prover, merkle, owner, start = "report", r.Prover, r.Merkle, r.Owner, r.Start
			preForms, postForms = o.pre.report, post.report
		}
		key := pkey(prover, merkle, owner, start)
		_, had := preForms[key]
		nf, has := postForms[key]
		if !had && has {
			o.checkNewForm(w, kind, key, prover, nf)
		}
		if ok, what := formsSame(preForms, postForms, key); !ok {
			w.Violate("C14:collateral-form-change", "%s form request changed another form: %s", kind, what)
		}
		if ok, what := proofsFilesSame(&o.pre.stor, &post.stor, "", ""); !ok {
			w.Violate("C14:acted-before-quorum:"+kind, "a form request changed %s", what)
		}
	case *storagetypes.MsgAttest, *storagetypes.MsgReport:
		kind, signer, prover := "attest", "", ""
		var merkle []byte
		var owner string
		var start int64
		preForms, postForms := o.pre.attest, post.attest
		otherPre, otherPost := o.pre.report, post.report
		if a, ok := m.(*storagetypes.MsgAttest); ok {
			signer, prover, merkle, owner, start = a.Creator, a.Prover, a.Merkle, a.Owner, a.Start
		} else {
			r := m.(*storagetypes.MsgReport)
			kind, signer, prover, merkle, owner, start = "report", r.Creator, r.Prover, r.Merkle, r.Owner, r.Start
			preForms, postForms = o.pre.report, post.report
			otherPre, otherPost = o.pre.attest, post.attest
		}
		key := pkey(prover, merkle, owner, start)
		fk := fkey(merkle, owner, start)
		form, exists := preForms[key]
		named := exists && contains(form.named, signer)
		_, still := postForms[key]
		acted := exists && !still
		if ok, what := formsSame(otherPre, otherPost, ""); !ok {
			w.Violate("C14:collateral-form-change", "%s signature changed a form of the other kind: %s", kind, what)
		}
		if ok, what := formsSame(preForms, postForms, key); !ok {
			w.Violate("C14:collateral-form-change", "%s signature changed another form: %s", kind, what)
		}
		// what changed in proofs/files outside the named pair?
		if ok, what := proofsFilesSame(&o.pre.stor, &post.stor, key, fk); !ok {
			w.Violate("C14:collateral-change:"+kind, "%s signature by %s changed %s", kind, signer, what)
		}
		// did the pair itself change?
		pairChanged := false
		pr, prOK := o.pre.stor.proofs[key]
		qr, qrOK := post.stor.proofs[key]
		if prOK != qrOK || (prOK && pr.LastProven != qr.LastProven) {
			pairChanged = true
		}
		pf, pfOK := o.pre.stor.files[fk]
		qf, qfOK := post.stor.files[fk]
		if pfOK != qfOK || (pfOK && fmt.Sprint(pf.Proofs) != fmt.Sprint(qf.Proofs)) {
			pairChanged = true
		}
		if !exists {
			w.Probe("sig_on_missing_form:" + kind)
			if pairChanged || still {
				w.Violate("C14:consumed-form-acted", "%s signature by %s on a non-existent form changed state", kind, signer)
			}
			return
		}
		if !named {
			w.Probe("sig_unnamed:" + kind)
			if pairChanged || acted {
				w.Violate("C14:foreign-signature-counted", "%s signature by %s, who is not named on the form, changed state (form consumed: %v)", kind, signer, acted)
			}
			if nf, ok := postForms[key]; ok && len(nf.signed) != len(form.signed) {
				w.Violate("C14:foreign-signature-counted", "%s signature by unnamed %s changed the form's signature marks", kind, signer)
			}
			return
		}
		if form.signed[signer] {
			w.Probe("sig_repeated:" + kind)
		}
		count := int64(len(form.signed))
		if !form.signed[signer] {
			count++
		}
		if count < o.pre.minPass {
			if acted || pairChanged {
				cls := "C14:acted-before-quorum:" + kind
				if form.signed[signer] {
					cls = "C14:repeat-counted"
				}
				w.Violate(cls, "%s acted with %d distinct named signatures, minimum %d", kind, count, o.pre.minPass)
			}
			w.Probe("sig_below_quorum:" + kind)
			return
		}
		// quorum reached in this step
		if res.Code != 0 && (st.Gas != 0 || st.Kind != "tx") {
			return // legitimately failed for an injected reason
		}
		targetOK := pfOK && prOK && pf.ContainsProver(prover)
		if !targetOK {
			w.Probe("quorum_on_vanished_target:" + kind)
			if pairChanged {
				w.Violate("C14:acted-on-vanished-target", "%s quorum reached but the prover/file no longer exists, yet state changed", kind)
			}
			return
		}
		w.Probe("quorum_reached:" + kind)
		w.NonTrivial()
		if len(form.signed) > 0 || true {
			if kind == "attest" {
				if !acted || !qrOK || qr.LastProven != w.height {
					// "only after a quorum" is a necessary condition: a chain that waits for more is within the statement
					w.Probe("quorum_reached_not_acted:attest")
				}
				if qfOK && fmt.Sprint(pf.Proofs) != fmt.Sprint(qf.Proofs) {
					w.Violate("C14:collateral-change:attest", "attestation changed the prover list")
				}
			} else {
				if !acted || (qfOK && qf.ContainsProver(prover)) {
					w.Probe("quorum_reached_not_acted:report")
				}
			}
		}
	default:
		// no other message may complete or create forms... except those that delete files/provers (not forms)
		if ok, what := formsSame(o.pre.attest, post.attest, ""); !ok {
			w.Violate("C14:collateral-form-change", "%s changed attestation form %s", shortKind(msgs), what)
		}
		if ok, what := formsSame(o.pre.report, post.report, ""); !ok {
			w.Violate("C14:collateral-form-change", "%s changed report form %s", shortKind(msgs), what)
		}
	}
}

func init() {
	register(&Property{
		ID:        "C14",
		NewGen:    func() Generator { return &genStorage{profile: "attest"} },
		NewOracle: func() Oracle { return &oracleC14{} },
		Runs:      map[string]int{"quick": 400, "thorough": 10000},
		Required: []string{"form_created:attest", "form_created:report", "quorum_reached:attest", "quorum_reached:report", "sig_unnamed:attest", "sig_unnamed:report",
			"sig_repeated:attest", "sig_below_quorum:attest", "sig_below_quorum:report", "sig_on_missing_form:attest"},
		Rule: "online-generated storage histories with 3-8 providers in same/different domains, form size 1..5 and minimum 0..size (also changed mid-run), attest/report forms requested by provers and strangers, signatures by named, unnamed, repeated signers and on missing/consumed forms, swarm network faults; " +
			"non-trivial = a quorum was reached on a live target; distinct = distinct (message kind, outcome) sequences",
	})
}
