package main

import (
	"fmt"
	"sort"

	sdk "github.com/cosmos/cosmos-sdk/types"
	abci "github.com/tendermint/tendermint/abci/types"

	notiftypes "github.com/jackalLabs/canine-chain/v4/x/notifications/types"
)

// ---------------- ops ----------------

func (w *World) chainInbox(addr string) []notiftypes.Notification {
	r, err := w.node().app.NotificationsKeeper.AllNotificationsByAddress(sdk.WrapSDKContext(w.Ctx()),
		&notiftypes.QueryAllNotificationsByAddress{To: addr, Pagination: bigPage()})
	if err != nil {
		return nil
	}
	return r.Notifications
}

func (w *World) resolveNotifOp(op Op) sdk.Msg {
	a := w.acct(int64(op.A))
	if a == nil {
		return nil
	}
	switch op.K {
	case "notif_create":
		to := op.s("toname")
		if to == "" {
			t := w.acct(op.n("to"))
			if t == nil {
				return nil
			}
			to = t.Bech
		}
		c := op.s("contents")
		if c == "" {
			c = "{}"
		}
		return &notiftypes.MsgCreateNotification{Creator: a.Bech, To: to, Contents: c, PrivateContents: []byte(op.s("priv"))}
	case "notif_delete":
		f := w.acct(op.n("from"))
		if f == nil {
			return nil
		}
		// "the k-th entry from that sender in <inbox>'s listing"; inbox defaults to the signer's own
		inboxOf := a
		if op.has("inbox") {
			if x := w.acct(op.n("inbox")); x != nil {
				inboxOf = x
			}
		}
		tm := int64(12345)
		k := op.n("k")
		for _, n := range w.chainInbox(inboxOf.Bech) {
			if n.From == f.Bech {
				if k == 0 {
					tm = n.Time
					break
				}
				k--
			}
		}
		return &notiftypes.MsgDeleteNotification{Creator: a.Bech, From: f.Bech, Time: tm}
	case "notif_block":
		var list []string
		if t := w.acct(op.nd("target", -1)); t != nil {
			list = append(list, t.Bech)
		}
		if t := w.acct(op.nd("target2", -1)); t != nil {
			list = append(list, t.Bech)
		}
		if n := op.s("name"); n != "" {
			list = append(list, n)
		}
		if n := op.s("name2"); n != "" {
			list = append(list, n)
		}
		return &notiftypes.MsgBlockSenders{Creator: a.Bech, ToBlock: list}
	}
	return nil
}

func init() {
	opResolvers = append(opResolvers, func(w *World, op Op) sdk.Msg { return w.resolveNotifOp(op) })
}

// ---------------- generator ----------------

type genC18 struct {
	net   *Net
	nb    int
	accts []int
	names []string
	seq   int
}

func (g *genC18) Config(rng *Rng, tier string) Config {
	c := baseConfig(rng)
	n := 3 + rng.Intn(3)
	c.NAccts = n + 2
	for i := 1; i <= n; i++ {
		g.accts = append(g.accts, i)
	}
	c.Mint.StorageStipendAddress = makeAcct(n + 1).Bech
	g.names = []string{"alice.jkl", "bob.jkl", "carol.ibc"}
	g.nb = 30 + rng.Intn(40)
	if tier == "thorough" {
		g.nb = 40 + rng.Intn(80)
	}
	g.net = newNet(rng, []string{"tx_dup", "tx_delay", "tx_reorder", "out_of_gas", "crash_restart", "tx_drop", "multi_msg"}, 5)
	c.InvCheckPeriod = uint(rng.Pick64(0, 0, 1))
	return c
}

func (g *genC18) NBlocks() int { return g.nb }

func (g *genC18) Block(w *World, b int) Block {
	rng := w.rng
	blk := Block{DtNs: pickDt(rng, false)}
	var steps []Step
	add := func(ops ...Op) { steps = append(steps, txStep(ops...)) }
	pick := func() int { return g.accts[rng.Intn(len(g.accts))] }
	if b == 0 {
		for i, n := range g.names {
			add(mkOp("rns_register", g.accts[i%len(g.accts)]).withS("name", n).withN("years", 1))
		}
	}
	k := rng.Intn(5)
	for i := 0; i < k; i++ {
		a := pick()
		switch rng.Weighted([]int{34, 14, 8, 12, 6, 8, 6, 6}) {
		case 0:
			g.seq++
			add(mkOp("notif_create", a).withN("to", int64(pick())).withS("contents", fmt.Sprintf(`{"m":%d}`, g.seq)).withS("priv", fmt.Sprintf("p%d", g.seq)))
		case 1: // by name
			g.seq++
			add(mkOp("notif_create", a).withS("toname", rng.PickS(g.names[0], g.names[1], g.names[2], "nobody.jkl", "ALICE.jkl")).withS("contents", fmt.Sprintf(`{"m":%d}`, g.seq)))
		case 2: // same sender, same recipient, same block (same timestamp)
			t := pick()
			for j := 0; j < 2+rng.Intn(2); j++ {
				g.seq++
				add(mkOp("notif_create", a).withN("to", int64(t)).withS("contents", fmt.Sprintf(`{"m":%d}`, g.seq)))
			}
		case 3: // recipient deletes
			add(mkOp("notif_delete", a).withN("from", int64(pick())).withN("k", int64(rng.Intn(3))))
		case 4: // somebody else names an entry of another inbox
			add(mkOp("notif_delete", a).withN("from", int64(pick())).withN("k", int64(rng.Intn(2))).withN("inbox", int64(pick())))
		case 5:
			op := mkOp("notif_block", a).withN("target", int64(pick()))
			if rng.Chance(1, 3) {
				op = op.withN("target2", int64(pick()))
			}
			if rng.Chance(1, 3) {
				op = op.withS("name", rng.PickS(g.names[0], g.names[1], "nobody.jkl"))
			}
			if rng.Chance(1, 4) { // several names, one of them unresolvable
				op = op.withS("name", rng.PickS(g.names[0], g.names[1], g.names[2])).withS("name2", rng.PickS("nobody.jkl", g.names[1], "ghost.ibc"))
			}
			add(op)
		case 6: // names change hands, so resolution changes over time
			add(mkOp("rns_transfer", a).withS("name", g.names[rng.Intn(len(g.names))]).withN("to", int64(pick())))
		case 7: // invalid contents
			add(mkOp("notif_create", a).withN("to", int64(pick())).withS("contents", "not json"))
		}
	}
	for i := range steps {
		if steps[i].Kind == "tx" && rng.Chance(1, 20) {
			if steps[i].N == nil {
				steps[i].N = map[string]int64{}
			}
			steps[i].N["upper"] = 1 // the same account, spelled in upper case
		}
	}
	blk.Steps = g.net.Apply(rng, b, len(w.nodes), steps)
	if len(w.nodes) == 1 && rng.Chance(1, 50) {
		blk.Reimport = true // restart of the whole chain from its own exported genesis: every inbox must carry over unchanged
	}
	return blk
}

// ---------------- oracle ----------------

type inboxEntry struct {
	To, From string
	Time     int64
	Contents string
	Priv     string
}

func (e inboxEntry) key() string { return fmt.Sprintf("%s|%s|%d|%s|%s", e.To, e.From, e.Time, e.Contents, e.Priv) }

type oracleC18 struct {
	NopOracle
	inbox   map[string][]inboxEntry // model: recipient -> entries
	blocked map[string]bool         // owner|sender
	preTo   []string   // per message: resolved target of a create
	preOK   []bool
	preBlk  [][]string // per message: resolved block targets
	restarts int       // restarts from export seen so far
}

func (o *oracleC18) Start(w *World) { o.inbox = map[string][]inboxEntry{}; o.blocked = map[string]bool{} }

func (o *oracleC18) BeforeStep(w *World, st *Step, msgs []sdk.Msg) {
	o.preTo = make([]string, len(msgs))
	o.preOK = make([]bool, len(msgs))
	o.preBlk = make([][]string, len(msgs))
	rns := w.node().app.RnsKeeper
	for i, mm := range msgs {
		switch m := mm.(type) {
		case *notiftypes.MsgCreateNotification:
			if a, err := rns.Resolve(w.Ctx(), m.To); err == nil {
				o.preTo[i], o.preOK[i] = a.String(), true
			}
		case *notiftypes.MsgBlockSenders:
			for _, t := range m.ToBlock {
				if a, err := rns.Resolve(w.Ctx(), t); err == nil {
					o.preBlk[i] = append(o.preBlk[i], a.String())
				}
			}
		}
	}
}

func multiset(es []inboxEntry) map[string]int {
	m := map[string]int{}
	for _, e := range es {
		m[e.key()]++
	}
	return m
}

func (o *oracleC18) compare(w *World, kind string) {
	all := []inboxEntry{}
	for _, a := range w.accts {
		var chain []inboxEntry
		for _, n := range w.chainInbox(a.Bech) {
			chain = append(chain, inboxEntry{n.To, canonAddr(n.From), n.Time, n.Contents, string(n.PrivateContents)})
		}
		model := o.inbox[a.Bech]
		cm, mm := multiset(chain), multiset(model)
		bad := false
		for k, c := range cm {
			if c > mm[k] {
				bad = true
				cls := "C18:phantom-entry:from other msg"
				if kind == "MsgBlockSenders" {
					cls = "C18:phantom-entry:from block"
				}
				// a field mismatch looks like phantom+missing: tell them apart by (from,time)
				w.Violate(cls, "inbox of %s lists %q which was never sent to it (after %s)", a.Bech, k, kind)
			}
		}
		for k, c := range mm {
			if c > cm[k] {
				bad = true
				cls := "C18:missing-entry:other"
				// same (to, from, time) sent twice?
				cnt := 0
				var ref inboxEntry
				for _, e := range model {
					if e.key() == k {
						ref = e
					}
				}
				for _, e := range model {
					if e.To == ref.To && e.From == ref.From && e.Time == ref.Time {
						cnt++
					}
				}
				if cnt > 1 {
					cls = "C18:missing-entry:overwrite-same-time"
				}
				if kind == "MsgDeleteNotification" {
					cls = "C18:deleted-by-non-recipient"
				}
				w.Violate(cls, "inbox of %s lacks %q although it was sent and not deleted (after %s)", a.Bech, k, kind)
			}
		}
		if bad {
			o.inbox[a.Bech] = chain // re-synchronise so one defect is reported once
		}
		all = append(all, chain...)
	}
	// the global listing is the union of the inboxes
	r, err := w.node().app.NotificationsKeeper.AllNotifications(sdk.WrapSDKContext(w.Ctx()), &notiftypes.QueryAllNotifications{Pagination: bigPage()})
	if err == nil {
		var g []inboxEntry
		known := map[string]bool{}
		for _, a := range w.accts {
			known[a.Bech] = true
		}
		for _, n := range r.Notifications {
			if known[n.To] {
				g = append(g, inboxEntry{n.To, canonAddr(n.From), n.Time, n.Contents, string(n.PrivateContents)})
			} else {
				w.Violate("C18:phantom-entry:global-listing", "AllNotifications lists an entry for unknown recipient %q", n.To)
			}
		}
		a, b := multiset(all), multiset(g)
		ks := map[string]bool{}
		for k := range a {
			ks[k] = true
		}
		for k := range b {
			ks[k] = true
		}
		var keys []string
		for k := range ks {
			keys = append(keys, k)
		}
		sort.Strings(keys)
		for _, k := range keys {
			if a[k] != b[k] {
				w.Violate("C18:global-listing≠inboxes", "entry %q: %d in inboxes, %d in AllNotifications", k, a[k], b[k])
				break
			}
		}
	}
}

func (o *oracleC18) AfterStep(w *World, st *Step, msgs []sdk.Msg, res *abci.ResponseDeliverTx) {
	kind := shortKind(msgs)
	for _, mm := range msgs {
		// attempt-level probe: a delete naming an entry the inbox does not hold (whatever the chain answers)
		if m, ok := mm.(*notiftypes.MsgCreateNotification); ok {
			for i := range msgs {
				if msgs[i] == mm && o.preOK[i] && o.blocked[o.preTo[i]+"|"+canonAddr(m.Creator)] {
					w.Probe("blocked_sender_attempted")
				}
			}
		}
		if m, ok := mm.(*notiftypes.MsgDeleteNotification); ok {
			hit := false
			for _, x := range o.inbox[canonAddr(m.Creator)] {
				hit = hit || (x.From == canonAddr(m.From) && x.Time == m.Time)
			}
			if !hit {
				w.Probe("delete_of_absent_entry_attempted")
			}
		}
	}
	if res.Code == 0 {
		for i, mm := range msgs {
			switch m := mm.(type) {
			case *notiftypes.MsgCreateNotification:
				if !o.preOK[i] {
					w.Violate("C18:sent-to-unresolvable", "notification to %q succeeded although the target does not resolve", m.To)
					continue
				}
				to := o.preTo[i]
				if o.blocked[to+"|"+canonAddr(m.Creator)] {
					w.Violate("C18:blocked-delivered", "%s is blocked by %s but its notification was accepted", m.Creator, to)
				}
				e := inboxEntry{to, canonAddr(m.Creator), w.now.UnixMicro(), m.Contents, string(m.PrivateContents)}
				for _, x := range o.inbox[to] {
					if x.From == e.From && x.Time == e.Time {
						w.Probe("same_time_double_send")
					}
				}
				o.inbox[to] = append(o.inbox[to], e)
				w.Probe("send_ok")
				if m.To != to {
					w.Probe("send_by_name_ok")
				}
				w.NonTrivial()
			case *notiftypes.MsgDeleteNotification:
				var keep []inboxEntry
				removed := false
				for _, x := range o.inbox[m.Creator] {
					if x.From == canonAddr(m.From) && x.Time == m.Time {
						removed = true
						continue
					}
					keep = append(keep, x)
				}
				o.inbox[m.Creator] = keep
				if removed {
					w.Probe("delete_ok")
				} else {
					w.Probe("delete_nothing")
				}
			case *notiftypes.MsgBlockSenders:
				for _, b := range o.preBlk[i] {
					o.blocked[canonAddr(m.Creator)+"|"+b] = true
				}
				w.Probe("block_ok")
			}
		}
	}
	if len(msgs) == 1 && res.Code != 0 {
		if m, ok := msgs[0].(*notiftypes.MsgCreateNotification); ok && o.preOK[0] && o.blocked[o.preTo[0]+"|"+canonAddr(m.Creator)] {
			w.Probe("blocked_send_rejected")
		}
	}
	o.compare(w, kind)
}

func (o *oracleC18) AfterBegin(w *World, _ *abci.ResponseBeginBlock) {
	if n := w.res.Faults["restart_from_export"]; n != o.restarts {
		// The chain continues on a node initialised from its own export. The export is known to drop
		// block-list entries (C19 known finding, kv-lost:notification block-list entry), so the block
		// model is re-read from the chain; the inboxes are NOT relaxed: every entry must have
		// carried over and nothing may have appeared.
		o.restarts = n
		nk, ctx := w.node().app.NotificationsKeeper, w.Ctx()
		for _, a := range w.accts {
			for _, b := range w.accts {
				k := a.Bech + "|" + b.Bech
				if o.blocked[k] && !nk.IsBlocked(ctx, a.Bech, b.Bech) {
					delete(o.blocked, k)
					w.Probe("block_entry_lost_by_export(known C19)")
				}
			}
		}
		o.compare(w, "restart-from-export")
		return
	}
	o.compare(w, "begin-block")
}

func init() {
	register(&Property{
		ID:        "C18",
		NewGen:    func() Generator { return &genC18{} },
		NewOracle: func() Oracle { return &oracleC18{} },
		Runs:      map[string]int{"quick": 400, "thorough": 10000},
		Required:  []string{"send_ok", "send_by_name_ok", "delete_ok", "delete_of_absent_entry_attempted", "block_ok", "blocked_sender_attempted"},
		Rule: "online-generated histories of 3-5 accounts sending notifications by address and by name (names registered and transferred so resolution changes), unique contents, several sends per block incl. same sender/recipient/timestamp, deletes by recipients and by others naming foreign entries, block lists by address and name, blocked senders retrying, swarm network faults; " +
			"non-trivial = at least one notification was delivered; distinct = distinct (message kind, outcome) sequences",
	})
}
