package main

import (
	"bufio"
	"encoding/json"
	"fmt"
	"os"
	"os/exec"
	"path/filepath"
	"runtime"
	"sort"
	"strconv"
	"strings"
	"sync"
	"time"
)

var verifRoot = func() string {
	if v := os.Getenv("VERIF_ROOT"); v != "" {
		return v
	}
	return "/verif"
}()

type KnownFinding struct {
	Property string `json:"property"`
	Class    string `json:"class"`
	Status   string `json:"status"` // "known" | "fixed"
	Commit   string `json:"commit,omitempty"`
	What     string `json:"what"`
}

func loadKnown() []KnownFinding {
	bz, err := os.ReadFile(filepath.Join(verifRoot, "known_findings.json"))
	if err != nil {
		return nil
	}
	var k []KnownFinding
	if err := json.Unmarshal(bz, &k); err != nil {
		fmt.Fprintln(os.Stderr, "known_findings.json unreadable:", err)
		os.Exit(2)
	}
	return k
}

func knownFor(k []KnownFinding, prop, class string) *KnownFinding {
	for i := range k {
		if k[i].Property == prop && k[i].Status == "known" && k[i].Class == class {
			return &k[i]
		}
	}
	return nil
}

func envInt(name string, def int) int {
	if v := os.Getenv(name); v != "" {
		if n, err := strconv.Atoi(v); err == nil {
			return n
		}
	}
	return def
}

func batchSeed() uint64 {
	if v := os.Getenv("VERIF_SEED"); v != "" {
		if n, err := strconv.ParseUint(v, 10, 64); err == nil {
			return n
		}
		if n, err := strconv.ParseInt(v, 10, 64); err == nil {
			return uint64(n)
		}
	}
	return 1
}

// oneRun generates and executes run i of a property.
func oneRun(p *Property, tier string, batch uint64, i int) (*Schedule, *RunResult) {
	seed := runSeed(batch, p.ID, i)
	rng := NewRng(seed)
	gen := p.NewGen()
	s := &Schedule{Version: 1, Property: p.ID, Seed: seed, Run: i, Tier: tier}
	s.Config = gen.Config(rng, tier)
	res := runSchedule(s, gen, p.NewOracle(), rng)
	return s, res
}

// execSchedule replays a recorded schedule literally.
func execSchedule(p *Property, s *Schedule) *RunResult {
	c := *s
	return runSchedule(&c, nil, p.NewOracle(), nil)
}

func cmdWorker(args []string) int {
	// worker PROP TIER BATCH FROM TO OUT
	if len(args) != 6 {
		fmt.Fprintln(os.Stderr, "usage: worker PROP TIER BATCH FROM TO OUT")
		return 2
	}
	p := registry[args[0]]
	if p == nil {
		return 2
	}
	tier := args[1]
	batch, _ := strconv.ParseUint(args[2], 10, 64)
	from, _ := strconv.Atoi(args[3])
	to, _ := strconv.Atoi(args[4])
	out, err := os.Create(args[5])
	if err != nil {
		return 2
	}
	defer out.Close()
	defer cleanupScratch()
	bw := bufio.NewWriter(out)
	defer bw.Flush()
	quietStdout()
	for i := from; i < to; i++ {
		s, res := oneRun(p, tier, batch, i)
		if len(res.Violations) > 0 || res.Err != "" {
			fp := filepath.Join(filepath.Dir(args[5]), fmt.Sprintf("fail-%s-%d.json", p.ID, i))
			s.Expect = nil
			_ = os.WriteFile(fp, []byte(mustJSON(s)), 0o644)
		}
		if (i-from) < 2 {
			res.Sample = s.sample(14)
		}
		bw.WriteString(mustJSON(res))
		bw.WriteString("\n")
	}
	return 0
}

func quietStdout() {
	if os.Getenv("VERIF_KEEP_STDOUT") != "" {
		return
	}
	dn, err := os.OpenFile("/dev/null", os.O_WRONLY, 0)
	if err == nil {
		os.Stdout = dn
	}
}

type batchAgg struct {
	results []*RunResult
	failDir string
}

func runBatch(p *Property, tier string, batch uint64, nRuns int, wallCap time.Duration) (*batchAgg, error) {
	workers := envInt("VERIF_WORKERS", runtime.NumCPU())
	if workers < 1 {
		workers = 1
	}
	chunk := envInt("VERIF_CHUNK", 20)
	dir := filepath.Join(verifRoot, ".scratch", fmt.Sprintf("batch-%s-%d", p.ID, os.Getpid()))
	_ = os.RemoveAll(dir)
	if err := os.MkdirAll(dir, 0o755); err != nil {
		return nil, err
	}
	self, _ := os.Executable()
	type job struct{ from, to int }
	jobs := make(chan job, 1024)
	var mu sync.Mutex
	var firstErr error
	agg := &batchAgg{failDir: dir}
	deadline := time.Now().Add(wallCap)
	var wg sync.WaitGroup
	for wkr := 0; wkr < workers; wkr++ {
		wg.Add(1)
		go func() {
			defer wg.Done()
			for j := range jobs {
				if time.Now().After(deadline) {
					continue
				}
				out := filepath.Join(dir, fmt.Sprintf("res-%d-%d.jsonl", j.from, j.to))
				cmd := exec.Command(self, "worker", p.ID, tier, strconv.FormatUint(batch, 10), strconv.Itoa(j.from), strconv.Itoa(j.to), out)
				cmd.Env = append(os.Environ(), "VERIF_SCRATCH="+filepath.Join(dir, "homes"))
				cmd.Stdout = nil
				var eb strings.Builder
				cmd.Stderr = &eb
				done := make(chan error, 1)
				if err := cmd.Start(); err != nil {
					mu.Lock()
					firstErr = err
					mu.Unlock()
					continue
				}
				go func() { done <- cmd.Wait() }()
				var err error
				select {
				case err = <-done:
				case <-time.After(time.Until(deadline) + 5*time.Minute):
					_ = cmd.Process.Kill()
					err = fmt.Errorf("worker watchdog: killed")
				}
				if err != nil {
					mu.Lock()
					if firstErr == nil {
						firstErr = fmt.Errorf("worker %d-%d: %v: %s", j.from, j.to, err, tail(eb.String(), 2000))
					}
					mu.Unlock()
					continue
				}
				rs, rerr := readResults(out)
				mu.Lock()
				if rerr != nil && firstErr == nil {
					firstErr = rerr
				}
				agg.results = append(agg.results, rs...)
				mu.Unlock()
			}
		}()
	}
	for f := 0; f < nRuns; f += chunk {
		t := f + chunk
		if t > nRuns {
			t = nRuns
		}
		jobs <- job{f, t}
	}
	close(jobs)
	wg.Wait()
	sort.Slice(agg.results, func(i, j int) bool { return agg.results[i].Run < agg.results[j].Run })
	return agg, firstErr
}

func tail(s string, n int) string {
	if len(s) > n {
		return s[len(s)-n:]
	}
	return s
}

func readResults(path string) ([]*RunResult, error) {
	f, err := os.Open(path)
	if err != nil {
		return nil, err
	}
	defer f.Close()
	var out []*RunResult
	sc := bufio.NewScanner(f)
	sc.Buffer(make([]byte, 1<<20), 1<<28)
	for sc.Scan() {
		var r RunResult
		if err := json.Unmarshal(sc.Bytes(), &r); err != nil {
			return nil, err
		}
		out = append(out, &r)
	}
	return out, sc.Err()
}

func cmdCheck(propID, tier string) int {
	p := registry[propID]
	if p == nil {
		fmt.Fprintf(os.Stderr, "unknown property %s\n", propID)
		return 2
	}
	if tier != "quick" && tier != "thorough" {
		tier = "quick"
	}
	t0 := time.Now()
	batch := batchSeed()
	nRuns := p.Runs[tier]
	if v := envInt("VERIF_RUNS", 0); v > 0 {
		nRuns = v
	}
	wallCap := 12 * time.Minute // safety caps only: on an idle 16-core machine quick takes 5-50 s, thorough 1-15 min
	if tier == "thorough" {
		wallCap = 120 * time.Minute
	}
	if v := envInt("VERIF_WALL_S", 0); v > 0 {
		wallCap = time.Duration(v) * time.Second
	}
	if old, _ := filepath.Glob(filepath.Join(verifRoot, "replays", propID+"-*.json")); len(old) > 0 {
		for _, f := range old {
			_ = os.Remove(f) // replay files of earlier runs of this check
		}
	}
	agg, err := runBatch(p, tier, batch, nRuns, wallCap)
	defer os.RemoveAll(agg.failDir)
	if err != nil {
		fmt.Fprintf(os.Stderr, "MACHINERY-ERROR property=%s: %v\n", propID, err)
		return 2
	}
	known := loadKnown()
	// classify
	type hit struct {
		run   int
		class string
		v     Violation
	}
	var unknown []hit
	knownHits := map[string]int{}
	var machErr []string
	for _, r := range agg.results {
		if r.Err != "" {
			machErr = append(machErr, fmt.Sprintf("run %d seed %d: %s", r.Run, r.Seed, tail(r.Err, 1500)))
		}
		for _, v := range r.Violations {
			if knownFor(known, propID, v.Class) != nil {
				knownHits[v.Class]++
			} else {
				unknown = append(unknown, hit{r.Run, v.Class, v})
			}
		}
	}
	if len(machErr) > 0 {
		fmt.Fprintf(os.Stderr, "MACHINERY-ERROR property=%s: %d runs failed inside the harness; first: %s\n", propID, len(machErr), machErr[0])
		return 2
	}
	exit := 0
	nProcDiverge, procCompared := 0, 0
	var replayPaths []string
	if len(unknown) > 0 {
		// minimise and confirm the first occurrence of up to 3 distinct classes
		// group the failing runs by class; for each of up to three classes try the failing runs in
		// order until one reproduces standalone in a fresh process (a violation that depends on what
		// an earlier run left behind in the worker process — e.g. a package-level variable in the
		// code under test — does not, and the next candidate is tried)
		byClass := map[string][]hit{}
		var order []string
		for _, h := range unknown {
			if _, ok := byClass[h.class]; !ok {
				order = append(order, h.class)
			}
			if len(byClass[h.class]) < 6 {
				byClass[h.class] = append(byClass[h.class], h)
			}
		}
		if len(order) > 3 {
			order = order[:3]
		}
		for ci, cls := range order {
			confirmed := false
			lastRC := 0
			for _, h := range byClass[cls] {
				raw := filepath.Join(agg.failDir, fmt.Sprintf("fail-%s-%d.json", propID, h.run))
				outp := filepath.Join(verifRoot, "replays", fmt.Sprintf("%s-%d-%d-%d.json", propID, batch, h.run, ci+1))
				_ = os.MkdirAll(filepath.Dir(outp), 0o755)
				lastRC = minimiseAndConfirm(raw, outp, h.class)
				if lastRC == 0 {
					fmt.Printf("VIOLATION property=%s replay=%s\n", propID, outp)
					fmt.Printf("  class=%s run=%d block=%d step=%d height=%d: %s\n", h.class, h.run, h.v.Block, h.v.Step, h.v.Height, h.v.Detail)
					replayPaths = append(replayPaths, outp)
					exit = 1
					confirmed = true
					break
				}
				_ = os.Remove(outp)
			}
			if !confirmed {
				fmt.Fprintf(os.Stderr, "MACHINERY-ERROR property=%s: violation class %s seen in %d runs did not reproduce standalone in a fresh process for any of the %d candidates tried (rc=%d); not reported as a violation\n", propID, cls, len(byClass[cls]), len(byClass[cls]), lastRC)
				if exit == 0 {
					exit = 2
				}
			}
		}
	}
	if propID == "C06" && exit == 0 {
		// fresh-process leg: re-execute sampled runs in new OS processes with other GOMAXPROCS
		k := 6
		if tier == "thorough" {
			k = 48
		}
		if k > len(agg.results) {
			k = len(agg.results)
		}
		self, _ := os.Executable()
		for _, gmp := range []string{"1", "3"} {
			out := filepath.Join(agg.failDir, "proc-"+gmp+".jsonl")
			cmd := exec.Command(self, "worker", propID, tier, strconv.FormatUint(batch, 10), "0", strconv.Itoa(k), out)
			cmd.Env = append(os.Environ(), "GOMAXPROCS="+gmp, "VERIF_SCRATCH="+filepath.Join(agg.failDir, "homes-p"+gmp))
			if err := cmd.Run(); err != nil {
				fmt.Fprintf(os.Stderr, "MACHINERY-ERROR property=C06: fresh-process leg failed: %v\n", err)
				exit = 2
				break
			}
			rs, _ := readResults(out)
			for i, r := range rs {
				if i < len(agg.results) && r.TraceDigest != agg.results[i].TraceDigest {
					outp := filepath.Join(verifRoot, "replays", fmt.Sprintf("C06-%d-%d-process.json", batch, r.Run))
					c2 := exec.Command(self, "run", propID, strconv.Itoa(r.Run), tier, outp)
					c2.Env = append(os.Environ(), "VERIF_SEED="+strconv.FormatUint(batch, 10))
					_ = c2.Run()
					fmt.Printf("VIOLATION property=C06 replay=%s\n  class=C06:diverge:trace:process run=%d: a fresh OS process (GOMAXPROCS=%s) produced block trace %s, the batch worker %s\n", outp, r.Run, gmp, r.TraceDigest, agg.results[i].TraceDigest)
					exit = 1
					nProcDiverge++
				}
			}
			procCompared += len(rs)
		}
	}
	for _, cls := range sortedKeys(knownHits) {
		kf := knownFor(known, propID, cls)
		fmt.Printf("KNOWN-FINDING: property=%s class=%s hits=%d %s\n", propID, cls, knownHits[cls], kf.What)
	}
	if len(unknown) > 0 {
		cc := map[string]int{}
		for _, h := range unknown {
			cc[h.class]++
		}
		for _, c := range sortedKeys(cc) {
			fmt.Printf("  violation-class %s: %d\n", c, cc[c])
		}
	}
	extraCov = map[string]interface{}{}
	if propID == "C06" {
		extraCov["fresh_process_reexecutions"] = procCompared
		extraCov["fresh_process_divergences"] = nProcDiverge
	}
	ev := writeEvidence(p, tier, batch, agg, time.Since(t0), len(unknown)+nProcDiverge, knownHits)
	// a required probe stuck at zero means the workload does not reach the obligation: machinery problem
	if exit == 0 {
		for _, rp := range p.Required {
			if ev.probes[rp] == 0 {
				fmt.Fprintf(os.Stderr, "MACHINERY-ERROR property=%s: probe %q was never hit in %d runs (the workload does not reach this obligation)\n", propID, rp, len(agg.results))
				exit = 2
			}
		}
		if ev.nontrivial < 2 {
			fmt.Fprintf(os.Stderr, "MACHINERY-ERROR property=%s: fewer than 2 non-trivial runs\n", propID)
			exit = 2
		}
	}
	fmt.Printf("property=%s tier=%s seed=%d runs=%d nontrivial_distinct=%d blocks=%d txs=%d violations=%d known_hits=%d wall=%.1fs exit=%d\n",
		propID, tier, batch, len(agg.results), ev.nontrivial, ev.blocks, ev.txs, len(unknown), len(knownHits), time.Since(t0).Seconds(), exit)
	return exit
}

// minimiseAndConfirm runs the minimiser in a child process, then replays the
// result in another fresh process. Returns 0 when the violation reproduces.
func minimiseAndConfirm(raw, outp, class string) int {
	self, _ := os.Executable()
	cmd := exec.Command(self, "minimise", raw, outp, class)
	cmd.Stderr = os.Stderr
	if err := cmd.Run(); err != nil {
		// could not minimise (e.g. a probabilistic divergence): fall back to the unminimised schedule
		sch, lerr := loadSchedule(raw)
		if lerr != nil {
			return 2
		}
		sch.Expect = &Expect{Class: class, Block: -1, Step: -1, Detail: "unminimised schedule"}
		sch.Trace = nil
		if os.WriteFile(outp, []byte(mustJSON(sch)), 0o644) != nil {
			return 2
		}
	}
	replayOnce := func() int {
		cmd := exec.Command(self, "replay", outp)
		cmd.Stderr = os.Stderr
		err := cmd.Run()
		if err == nil {
			return 3 // replay reported no violation
		}
		if ee, ok := err.(*exec.ExitError); ok && ee.ExitCode() == 1 {
			return 0
		}
		return 3
	}
	if rc := replayOnce(); rc == 0 {
		return 0
	}
	// the minimised schedule does not reproduce: try the unminimised one
	sch, lerr := loadSchedule(raw)
	if lerr != nil {
		return 3
	}
	sch.Expect = &Expect{Class: class, Block: -1, Step: -1, Detail: "unminimised schedule"}
	sch.Trace = nil
	if os.WriteFile(outp, []byte(mustJSON(sch)), 0o644) != nil {
		return 2
	}
	return replayOnce()
}

type evSummary struct {
	probes     map[string]int
	nontrivial int
	blocks     int
	txs        int
}

var extraCov map[string]interface{}

func writeEvidence(p *Property, tier string, batch uint64, agg *batchAgg, wall time.Duration, nViol int, knownHits map[string]int) evSummary {
	faults := map[string]int{}
	probes := map[string]int{}
	fps := map[string]bool{}
	states := map[string]bool{}
	patterns := map[string]bool{}
	var blocks, txs, txok, ff int
	var simT float64
	var samples []string
	for _, r := range agg.results {
		for k, v := range r.Faults {
			faults[k] += v
		}
		for k, v := range r.Probes {
			probes[k] += v
		}
		if r.NonTrivial {
			fps[r.Fingerprint] = true
		}
		for _, s := range r.States {
			states[s] = true
		}
		for _, s := range r.BlockPatterns {
			patterns[s] = true
		}
		blocks += r.Blocks
		txs += r.Txs
		txok += r.TxOK
		simT += r.SimTimeS
		if r.FaultFree {
			ff++
		}
		if r.Sample != "" && len(samples) < 3 {
			samples = append(samples, r.Sample)
		}
	}
	if len(samples) == 0 {
		samples = []string{"(no sample recorded)"}
	}
	rph := 0.0
	if wall.Seconds() > 0 {
		rph = float64(len(agg.results)) / wall.Seconds() * 3600
	}
	cov := map[string]interface{}{
		"evaluations":         len(agg.results),
		"distinct_nontrivial": len(fps),
		"rule":                p.Rule,
		"samples":             samples,
		"runs_per_hour":       int(rph),
		"blocks":              blocks,
		"txs":                 txs,
		"txs_succeeded":       txok,
		"simulated_time_s":    simT,
		"faults_fired":        faults,
		"probes":              probes,
		"distinct_states":     len(states),
		"distinct_block_interleavings": len(patterns),
		"interleaving_measure": "distinct ordered lists of (message kind, outcome code, delivery kind, injected fault) inside one block, over all blocks of all runs",
		"fault_free_runs":     ff,
		"known_findings_hit":  knownHits,
		"components":          map[string]interface{}{"real": realComponents, "stub": stubComponents},
		"workers":             envInt("VERIF_WORKERS", runtime.NumCPU()),
	}
	for k, v := range extraCov {
		cov[k] = v
	}
	ev := map[string]interface{}{
		"property_id": p.ID,
		"tier":        tier,
		"seed":        int64(batch & 0x7fffffffffffffff),
		"level":       "exploration",
		"coverage":    cov,
		"assumptions": []string{
			"all replicas receive the same blocks (consensus safety is Tendermint's job and is not simulated)",
			"database writes happen only in Commit and are atomic (MemDB); torn commits are outside the property",
			"sampling, not enumeration: a clean batch is evidence, not proof",
		},
		"wall_s":     wall.Seconds(),
		"violations": nViol,
	}
	bz, _ := json.MarshalIndent(ev, "", " ")
	_ = os.MkdirAll(filepath.Join(verifRoot, "evidence"), 0o755)
	_ = os.WriteFile(filepath.Join(verifRoot, "evidence", p.ID+".json"), bz, 0o644)
	return evSummary{probes: probes, nontrivial: len(fps), blocks: blocks, txs: txs}
}
