package main

import (
	"crypto/sha256"
	"encoding/hex"
	"encoding/json"
	"fmt"
	"sort"
)

// Op is one intent-level message. It is resolved into a concrete sdk.Msg against
// chain state when the transaction is built (kind "tx": at delivery; kind
// "prep": at preparation, delivered later by "send").
type Op struct {
	K string            `json:"k"`
	A int               `json:"a"` // acting account (becomes Creator)
	N map[string]int64  `json:"n,omitempty"`
	S map[string]string `json:"s,omitempty"`
}

func (o Op) n(k string) int64 { return o.N[k] }
func (o Op) nd(k string, d int64) int64 {
	if v, ok := o.N[k]; ok {
		return v
	}
	return d
}
func (o Op) s(k string) string { return o.S[k] }
func (o Op) has(k string) bool  { _, ok := o.N[k]; return ok }

func mkOp(k string, a int) Op { return Op{K: k, A: a, N: map[string]int64{}, S: map[string]string{}} }
func (o Op) withN(k string, v int64) Op  { o.N[k] = v; return o }
func (o Op) withS(k string, v string) Op { o.S[k] = v; return o }

// Step is one scheduler decision inside a block.
//   tx     build, sign and deliver a transaction now
//   prep   build and sign a transaction now, keep it (network delay)
//   send   deliver a previously prepared transaction (again = duplication)
//   crash  crash and restart a replica (replays the block so far)
//   param  governance parameter change applied between transactions
//   export export genesis, import into a fresh node, compare (C19)
type Step struct {
	Kind   string            `json:"kind"`
	Ops    []Op              `json:"ops,omitempty"`
	Signer int               `json:"signer"`           // account that signs; -1 = Ops[0].A
	CoSign int               `json:"cosign,omitempty"` // 1+index of a second signer (0 = none)
	Gas    uint64            `json:"gas,omitempty"`
	ID     int               `json:"id,omitempty"`
	Fault  string            `json:"fault,omitempty"`
	N      map[string]int64  `json:"n,omitempty"`
	S      map[string]string `json:"s,omitempty"`
}

func txStep(ops ...Op) Step { return Step{Kind: "tx", Ops: ops, Signer: -1} }

type Block struct {
	DtNs   int64  `json:"dt_ns"`
	Steps  []Step `json:"steps"`
	Export bool   `json:"export,omitempty"` // after Commit: export genesis, import into a fresh node, compare (C19)
	Reimport bool `json:"reimport,omitempty"` // after Commit: the chain is restarted from its own exported genesis and continues on the new node
}

type Expect struct {
	Class  string `json:"class"`
	Block  int    `json:"block"`
	Step   int    `json:"step"`
	Detail string `json:"detail"`
}

type Schedule struct {
	Version  int      `json:"version"`
	Property string   `json:"property"`
	Seed     uint64   `json:"seed"`
	Run      int      `json:"run"`
	Tier     string   `json:"tier"`
	Config   Config   `json:"config"`
	Blocks   []Block  `json:"blocks"`
	Expect   *Expect  `json:"expect,omitempty"`
	Trace    []string `json:"trace,omitempty"`
}

type Violation struct {
	Class  string `json:"class"`
	Block  int    `json:"block"`
	Step   int    `json:"step"`
	Height int64  `json:"height"`
	Detail string `json:"detail"`
}

// RunResult is what one simulated run reports back to the driver.
type RunResult struct {
	Run         int            `json:"run"`
	Seed        uint64         `json:"seed"`
	Blocks      int            `json:"blocks"`
	Txs         int            `json:"txs"`
	TxOK        int            `json:"tx_ok"`
	SimTimeS    float64        `json:"sim_time_s"`
	Faults      map[string]int `json:"faults,omitempty"`
	Probes      map[string]int `json:"probes,omitempty"`
	Violations  []Violation    `json:"violations,omitempty"`
	Fingerprint string         `json:"fp"`
	NonTrivial  bool           `json:"nontrivial"`
	States      []string       `json:"states,omitempty"`
	BlockPatterns []string     `json:"block_patterns,omitempty"`
	TraceDigest string         `json:"trace_digest"`
	FaultFree   bool           `json:"fault_free"`
	Err         string         `json:"err,omitempty"` // machinery error (exit 2), never a violation
	Sample      string         `json:"sample,omitempty"`
}

func hashHex(parts ...string) string {
	h := sha256.New()
	for _, p := range parts {
		h.Write([]byte(p))
		h.Write([]byte{0})
	}
	return hex.EncodeToString(h.Sum(nil))[:16]
}

func sortedKeys[V any](m map[string]V) []string {
	ks := make([]string, 0, len(m))
	for k := range m {
		ks = append(ks, k)
	}
	sort.Strings(ks)
	return ks
}

func mustJSON(v interface{}) string {
	b, err := json.Marshal(v)
	if err != nil {
		panic(err)
	}
	return string(b)
}

func (s *Schedule) countSteps() int {
	n := 0
	for _, b := range s.Blocks {
		n += len(b.Steps)
	}
	return n
}

// abbreviated description of a schedule for evidence samples
func (s *Schedule) sample(maxSteps int) string {
	out := fmt.Sprintf("seed=%d run=%d blocks=%d steps=%d:", s.Seed, s.Run, len(s.Blocks), s.countSteps())
	n := 0
	for bi, b := range s.Blocks {
		for _, st := range b.Steps {
			if n >= maxSteps {
				return out + " ..."
			}
			d := st.Kind
			if len(st.Ops) > 0 {
				d = fmt.Sprintf("%s[%s a%d]", st.Kind, st.Ops[0].K, st.Ops[0].A)
			}
			if st.Fault != "" {
				d += "!" + st.Fault
			}
			out += fmt.Sprintf(" b%d:%s", bi, d)
			n++
		}
	}
	return out
}
