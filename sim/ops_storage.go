package main

import (
	"bytes"
	"crypto/sha256"
	"encoding/json"
	"fmt"
	"strconv"
	"strings"

	paramproposal "github.com/cosmos/cosmos-sdk/x/params/types/proposal"
	abci "github.com/tendermint/tendermint/abci/types"

	sdk "github.com/cosmos/cosmos-sdk/types"
	"github.com/wealdtech/go-merkletree/v2"
	"github.com/wealdtech/go-merkletree/v2/sha3"

	storagetypes "github.com/jackalLabs/canine-chain/v4/x/storage/types"
	storageutils "github.com/jackalLabs/canine-chain/v4/x/storage/utils"
)

// storageParams returns the storage parameters in force. The integer fields are read from the
// params module's own query service (the subspace store, which is what governance writes), not
// through the storage keeper: a keeper-side cache going stale must not fool the oracles.
func (w *World) storageParams() storagetypes.Params {
	if w.spCacheOK && w.spCacheVer == w.stateVer {
		return w.spCache
	}
	p := w.storageParamsUncached()
	w.spCache, w.spCacheVer, w.spCacheOK = p, w.stateVer, true
	return p
}

func (w *World) storageParamsUncached() storagetypes.Params {
	p := w.node().app.StorageKeeper.GetParams(w.Ctx())
	truth := map[string]int64{}
	for jsonName, key := range paramKeyOf["storage"] {
		if v, ok := w.subspaceInt("storage", key); ok {
			truth[jsonName] = v
		}
	}
	q := p
	if len(truth) > 0 && overlayJSON(&q, truth) {
		if w.res != nil && w.res.Probes != nil {
			w.res.Probes["params_read_from_subspace"]++
		}
		return q
	}
	return p
}

// subspaceInt reads one integer parameter through /cosmos.params.v1beta1.Query/Params.
func (w *World) subspaceInt(subspace, key string) (int64, bool) {
	h := w.node().app.GRPCQueryRouter().Route("/cosmos.params.v1beta1.Query/Params")
	if h == nil {
		return 0, false
	}
	req := paramproposal.QueryParamsRequest{Subspace: subspace, Key: key}
	bz, err := req.Marshal()
	if err != nil {
		return 0, false
	}
	var out int64
	ok := false
	func() {
		defer func() { _ = recover() }()
		res, err := h(w.Ctx(), abci.RequestQuery{Data: bz})
		if err != nil {
			return
		}
		var qr paramproposal.QueryParamsResponse
		if qr.Unmarshal(res.Value) != nil {
			return
		}
		v := strings.Trim(qr.Param.Value, "\"")
		n, perr := strconv.ParseInt(v, 10, 64)
		if perr == nil {
			out, ok = n, true
		}
	}()
	return out, ok
}

// fileInst returns the file instance with its Merkle tree built for the chain's
// current chunk size (what an honest client does before posting).
func (w *World) fileInst(i int64) *FileInst {
	if i < 0 || int(i) >= len(w.files) {
		return nil
	}
	f := w.files[i]
	if f.Data == nil {
		f.Data = NewRng(f.Spec.DataSeed).Bytes(int(f.Spec.Size))
	}
	cs := w.storageParams().ChunkSize
	if f.tree == nil || f.chunk != cs {
		eff := cs // a chunk size beyond the file gives one chunk: do not allocate absurd buffers client-side
		if eff > int64(len(f.Data))+1 {
			eff = int64(len(f.Data)) + 1
		}
		root, exported, chunks, _, err := storageutils.BuildTree(bytes.NewReader(f.Data), eff)
		if err != nil {
			return nil
		}
		f.Merkle, f.tree, f.Chunks, f.chunk = root, exported, chunks, cs
	}
	return f
}

// honestProof builds what a provider daemon would submit for chunk idx.
func honestProof(f *FileInst, idx int64) (item []byte, hashList []byte, ok bool) {
	if idx < 0 || int(idx) >= len(f.Chunks) {
		return nil, nil, false
	}
	var tree merkletree.MerkleTree
	if err := json.Unmarshal(f.tree, &tree); err != nil {
		return nil, nil, false
	}
	item = f.Chunks[idx]
	h := sha256.New()
	h.Write([]byte(fmt.Sprintf("%d%x", idx, item)))
	proof, err := tree.GenerateProof(h.Sum(nil), 0)
	if err != nil {
		return nil, nil, false
	}
	jp, err := json.Marshal(*proof)
	if err != nil {
		return nil, nil, false
	}
	return item, jp, true
}

// modelVerify is the reference decision "is (item, hashList) a Merkle proof of
// chunk idx under root": written against the documented scheme (leaf =
// sha256(index || hex(chunk)), sha3-512 tree), independent of the chain code.
func modelVerify(root []byte, idx int64, item, hashList []byte) bool {
	var proof merkletree.Proof
	if err := json.Unmarshal(hashList, &proof); err != nil {
		return false
	}
	h := sha256.New()
	h.Write([]byte(fmt.Sprintf("%d%x", idx, item)))
	ok, err := merkletree.VerifyProofUsing(h.Sum(nil), false, &proof, [][]byte{root}, sha3.New512())
	return err == nil && ok
}

func (w *World) posting(f *FileInst, p int64) (Posting, bool) {
	if f == nil || len(f.Posts) == 0 {
		return Posting{}, false
	}
	if p < 0 || int(p) >= len(f.Posts) {
		return f.Posts[len(f.Posts)-1], true
	}
	return f.Posts[p], true
}

func (w *World) chainProof(prover string, merkle []byte, owner string, start int64) (storagetypes.FileProof, bool) {
	return w.node().app.StorageKeeper.GetProof(w.Ctx(), prover, merkle, owner, start)
}

func (w *World) chainFile(merkle []byte, owner string, start int64) (storagetypes.UnifiedFile, bool) {
	return w.node().app.StorageKeeper.GetFile(w.Ctx(), merkle, owner, start)
}

func (w *World) acct(i int64) *Acct {
	if i < 0 || int(i) >= len(w.accts) {
		return nil
	}
	return w.accts[i]
}

func flipBit(b []byte, pos int) []byte {
	if len(b) == 0 {
		return []byte{1}
	}
	c := append([]byte{}, b...)
	c[pos%len(c)] ^= 1 << uint(pos%7)
	return c
}

func (w *World) resolveStorageOp(op Op) sdk.Msg {
	a := w.acct(int64(op.A))
	if a == nil {
		return nil
	}
	switch op.K {
	case "post_file":
		f := w.fileInst(op.n("file"))
		if f == nil {
			return nil
		}
		size := int64(len(f.Data))
		if op.has("size") {
			size = op.n("size")
		}
		note := op.s("note")
		if note == "" {
			note = "{}"
		}
		exp := op.n("expires")
		if op.has("expires_in") {
			exp = w.height + op.n("expires_in")
		}
		return &storagetypes.MsgPostFile{Creator: a.Bech, Merkle: f.Merkle, FileSize: size, ProofType: 0,
			MaxProofs: op.nd("max", 3), Expires: exp, Note: note}
	case "post_proof":
		return w.resolveProof(op, a)
	case "delete_file":
		f := w.fileInst(op.n("file"))
		p, ok := w.posting(f, op.nd("post", -1))
		if !ok {
			return nil
		}
		return &storagetypes.MsgDeleteFile{Creator: a.Bech, Merkle: f.Merkle, Start: p.Start}
	case "init_provider":
		ip := op.s("ip")
		if ip == "" {
			ip = fmt.Sprintf("https://node%d.provider%d.example", op.A, op.A)
		}
		return &storagetypes.MsgInitProvider{Creator: a.Bech, Ip: ip, Keybase: op.s("keybase"), TotalSpace: op.nd("space", 1_000_000_000_000)}
	case "shutdown_provider":
		return &storagetypes.MsgShutdownProvider{Creator: a.Bech}
	case "set_ip":
		return &storagetypes.MsgSetProviderIP{Creator: a.Bech, Ip: op.s("ip")}
	case "set_keybase":
		return &storagetypes.MsgSetProviderKeybase{Creator: a.Bech, Keybase: op.s("keybase")}
	case "set_space":
		return &storagetypes.MsgSetProviderTotalSpace{Creator: a.Bech, Space: op.n("space")}
	case "add_claimer":
		t := w.acct(op.n("target"))
		if t == nil {
			return nil
		}
		return &storagetypes.MsgAddClaimer{Creator: a.Bech, ClaimAddress: t.Bech}
	case "remove_claimer":
		t := w.acct(op.n("target"))
		if t == nil {
			return nil
		}
		return &storagetypes.MsgRemoveClaimer{Creator: a.Bech, ClaimAddress: t.Bech}
	case "buy_storage":
		forA := w.acct(op.nd("for", int64(op.A)))
		if forA == nil {
			return nil
		}
		ref := op.s("refstr")
		if op.has("ref") && op.n("ref") >= 0 {
			if r := w.acct(op.n("ref")); r != nil {
				ref = r.Bech
			}
		}
		dn := op.s("denom")
		if dn == "" {
			dn = denom
		}
		return &storagetypes.MsgBuyStorage{Creator: a.Bech, ForAddress: forA.Bech, DurationDays: op.n("days"), Bytes: op.n("bytes"), PaymentDenom: dn, Referral: ref}
	case "req_attest":
		f := w.fileInst(op.n("file"))
		p, ok := w.posting(f, op.nd("post", -1))
		if !ok {
			return nil
		}
		return &storagetypes.MsgRequestAttestationForm{Creator: a.Bech, Merkle: f.Merkle, Owner: w.accts[p.Owner].Bech, Start: p.Start}
	case "attest", "report", "req_report":
		f := w.fileInst(op.n("file"))
		p, ok := w.posting(f, op.nd("post", -1))
		pr := w.acct(op.n("prover"))
		if !ok || pr == nil {
			return nil
		}
		owner := w.accts[p.Owner].Bech
		switch op.K {
		case "attest":
			return &storagetypes.MsgAttest{Creator: a.Bech, Prover: pr.Bech, Merkle: f.Merkle, Owner: owner, Start: p.Start}
		case "report":
			return &storagetypes.MsgReport{Creator: a.Bech, Prover: pr.Bech, Merkle: f.Merkle, Owner: owner, Start: p.Start}
		default:
			return &storagetypes.MsgRequestReportForm{Creator: a.Bech, Prover: pr.Bech, Merkle: f.Merkle, Owner: owner, Start: p.Start}
		}
	}
	return nil
}

// proof payload modes
var proofModes = []string{"honest", "wrongchunk_claimed", "wrongchunk_masked", "otherfile", "junk_json", "empty",
	"flip_item", "flip_hash", "trunc", "unknown_merkle", "unknown_owner", "unknown_start", "stale_index"}

func (w *World) resolveProof(op Op, a *Acct) sdk.Msg {
	f := w.fileInst(op.n("file"))
	p, ok := w.posting(f, op.nd("post", -1))
	if !ok {
		return nil
	}
	owner := w.accts[p.Owner].Bech
	challenge := int64(0)
	if pr, found := w.chainProof(a.Bech, f.Merkle, owner, p.Start); found {
		challenge = pr.ChunkToProve
	}
	nchunks := int64(len(f.Chunks))
	msg := &storagetypes.MsgPostProof{Creator: a.Bech, Merkle: f.Merkle, Owner: owner, Start: p.Start, ToProve: challenge}
	mode := op.s("mode")
	if mode == "" {
		mode = "honest"
	}
	other := func() int64 { // a chunk index different from the challenge, if any
		if nchunks < 2 {
			return challenge
		}
		return (challenge + 1 + op.nd("salt", 0)%(nchunks-1)) % nchunks
	}
	switch mode {
	case "honest":
		item, hl, ok := honestProof(f, challenge)
		if !ok {
			// challenge does not designate an existing chunk: an honest prover cannot answer.
			w.X["honest_unanswerable"] = fmt.Sprintf("challenge %d of %d chunks", challenge, nchunks)
			msg.Item, msg.HashList = []byte{}, []byte("{}")
			return msg
		}
		msg.Item, msg.HashList = item, hl
	case "wrongchunk_claimed":
		j := other()
		item, hl, _ := honestProof(f, j)
		msg.Item, msg.HashList, msg.ToProve = item, hl, j
	case "wrongchunk_masked":
		j := other()
		item, hl, _ := honestProof(f, j)
		msg.Item, msg.HashList = item, hl
	case "stale_index":
		// honest proof for the challenge, but claims a different index
		item, hl, _ := honestProof(f, challenge)
		msg.Item, msg.HashList, msg.ToProve = item, hl, challenge+1+op.nd("salt", 0)%3
	case "otherfile":
		g := w.fileInst(op.n("other"))
		if g == nil || g == f {
			return nil
		}
		idx := challenge
		if idx >= int64(len(g.Chunks)) {
			idx = 0
		}
		item, hl, _ := honestProof(g, idx)
		msg.Item, msg.HashList = item, hl
	case "junk_json":
		msg.Item, msg.HashList = NewRng(uint64(op.n("salt"))).Bytes(8), []byte(`{"hashes":null,"index":"x"`)
	case "empty":
		msg.Item, msg.HashList = nil, nil
	case "flip_item":
		item, hl, _ := honestProof(f, challenge)
		msg.Item, msg.HashList = flipBit(item, int(op.n("salt"))), hl
	case "flip_hash":
		item, hl, _ := honestProof(f, challenge)
		// flip a bit inside the first hash of the proof (re-encode to stay valid JSON)
		var pr merkletree.Proof
		if err := json.Unmarshal(hl, &pr); err == nil && len(pr.Hashes) > 0 {
			pr.Hashes[0] = flipBit(pr.Hashes[0], int(op.n("salt")))
			hl, _ = json.Marshal(pr)
		} else {
			item = flipBit(item, int(op.n("salt")))
		}
		msg.Item, msg.HashList = item, hl
	case "trunc":
		item, hl, _ := honestProof(f, challenge)
		if len(hl) > 3 {
			hl = hl[:len(hl)/2]
		}
		msg.Item, msg.HashList = item, hl
	case "unknown_merkle":
		item, hl, _ := honestProof(f, challenge)
		msg.Item, msg.HashList, msg.Merkle = item, hl, flipBit(f.Merkle, int(op.n("salt")))
	case "unknown_owner":
		item, hl, _ := honestProof(f, challenge)
		msg.Item, msg.HashList, msg.Owner = item, hl, a.Bech
		if a.Bech == owner {
			msg.Owner = w.accts[(op.A+1)%len(w.accts)].Bech
		}
	case "unknown_start":
		item, hl, _ := honestProof(f, challenge)
		msg.Item, msg.HashList, msg.Start = item, hl, p.Start+1+op.nd("salt", 0)%5
	default:
		return nil
	}
	return msg
}

// afterDeliverStorage keeps the world's intent bookkeeping (which postings exist).
func (w *World) afterDeliverStorage(msgs []sdk.Msg, ok bool) {
	if !ok {
		return
	}
	for _, m := range msgs {
		if pf, isPF := m.(*storagetypes.MsgPostFile); isPF {
			for _, f := range w.files {
				if f.Merkle != nil && bytes.Equal(f.Merkle, pf.Merkle) {
					ownerIdx := -1
					for _, a := range w.accts {
						if a.Bech == pf.Creator {
							ownerIdx = a.Idx
						}
					}
					dup := false
					for _, p := range f.Posts {
						if p.Owner == ownerIdx && p.Start == w.height {
							dup = true
						}
					}
					if !dup && ownerIdx >= 0 {
						f.Posts = append(f.Posts, Posting{Owner: ownerIdx, Start: w.height})
					}
				}
			}
		}
	}
}
