#!/bin/bash
# Runs every registered check in the given tier, sequentially (each uses all cores). Prints a summary.
cd "$(dirname "$0")"
TIER=${1:-quick}
export VERIF_ROOT=${VERIF_ROOT:-$(pwd)}
./build.sh || exit 2
rc=0
for P in $(./bin/chainsim list); do
  out=$(./bin/chainsim check $P $TIER 2>&1); c=$?
  echo "$out" | grep -E "^property=|^VIOLATION|^KNOWN-FINDING|MACHINERY" | cut -c1-220
  [ $c -ne 0 ] && rc=$c
done
exit $rc
